"""check <id> --replay <path>: re-execute a stored schedule on the current tree and re-evaluate the
property's formulas on the recorded states (same machinery as the check itself)."""
import json, os, shutil, subprocess
import vlib
from vlib import VERIF, RUN, MachineryError


def replay(pid, path):
    sched = os.path.join(path, "sched.json")
    cases = os.path.join(path, "cases.json")
    if os.path.exists(cases) and not os.path.exists(sched):
        # pure engines: the stored cases are re-evaluated by re-running the (exhaustive) quick check
        import vpure
        return vpure.run(pid, "quick", int(os.environ.get("VERIF_SEED", "1") or 1))
    if not os.path.exists(sched):
        print("no sched.json under", path)
        return 2
    workdir = os.path.join(RUN, "r%d" % os.getpid())
    shutil.rmtree(workdir, ignore_errors=True)
    os.makedirs(workdir)
    try:
        hb = vlib.build_harness(workdir)
        out = os.path.join(workdir, "replay.ndjson")
        p = subprocess.run([hb, "replay", "-sched", sched, "-out", out], stdout=subprocess.PIPE, stderr=subprocess.PIPE, text=True)
        if p.returncode != 0:
            raise MachineryError("replay failed: " + (p.stderr or p.stdout)[-2000:])
        summ = json.loads(p.stdout.strip().splitlines()[-1])
        obs = vlib.observe([out], workdir)
        if obs["tlc_errors"]:
            raise MachineryError("TLC failed on the replayed trace: " + obs["tlc_errors"][0]["tail"][-1500:])
        mine = [v for v in obs["violations"] if v["inv"].startswith(pid + "_")]
        keep = os.path.join(path, "replayed.ndjson")
        try:
            shutil.copy(out, keep)
        except OSError:
            pass
        print("replayed %d events (%d schedule steps not enabled), %d violation(s) of %s" % (obs["events"], summ.get("skipped", 0), len(mine), pid))
        seen = set()
        for v in mine:
            if v["inv"] in seen:
                continue
            seen.add(v["inv"])
            print("VIOLATION property=%s replay=%s formula=%s line=%d act=%s node=%d" % (pid, path, v["inv"], v["line"], v["act"], v["node"]))
        return 1 if mine else 0
    finally:
        shutil.rmtree(workdir, ignore_errors=True)
