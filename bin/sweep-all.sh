#!/bin/bash
# sweep-all.sh <tier> <seed>...: every property's check on the unchanged tree for several seeds; prints one line
# per (seed, property) that is not a clean exit 0, and a summary per seed. Development aid.
ROOT=$(cd "$(dirname "$0")/.." && pwd); cd $ROOT
mkdir -p .run/sweep .cache; TIER=$1; shift
for s in "$@"; do
  bad=0
  t0=$(date +%s)
  for p in C01 C02 C03 C04 C05 C06 C07 C08 C09 C10 C11 C12 C13 C14 C15 C16 C17 C18 C19 C20; do
    out=.run/sweep/${TIER}_${s}_$p.txt
    VERIF_SEED=$s bin/check $p --tier $TIER > $out 2>&1; e=$?
    if [ $e -ne 0 ] || grep -q "^VIOLATION\|^KNOWN-FINDING\|^DRIFT\|^SPEC-DEFECT\|^MACHINERY" $out; then
      bad=$((bad+1)); echo "seed $s $p exit $e: $(grep -h "^VIOLATION\|^KNOWN-FINDING\|^DRIFT\|^SPEC-DEFECT\|^MACHINERY" $out | head -3 | cut -c1-300)"
    fi
  done
  echo "seed $s tier $TIER: $bad of 20 checks not clean, $(( $(date +%s) - t0 )) s" 
done
