"""TLC model-checking runs of the specification itself (design-level check of the property
formulas on Raft.tla within the bounds of the family config)."""
import json, os, shutil, time
import vlib
from vlib import VERIF, RUN, CACHE


def model_result(pid, tier, seed):
    # filled in by vmodel_cfg.FAMILIES once Raft.tla configs exist
    try:
        import vmodel_cfg
    except ImportError:
        return {"runs": [], "states": 0, "transitions": 0}
    return vmodel_cfg.run(pid, tier, seed)
