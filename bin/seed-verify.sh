#!/bin/bash
# seed-verify.sh <candidate-dir> <seeded-id>: confirm a seeded change in a scratch worktree of /repo HEAD
# (suite passes with it; its demonstration passes without it and fails with it), then store it under /verif/seeded/<id>/.
set -u
C=$1; ID=$2
export GOFLAGS=-mod=mod GOPROXY=off GOSUMDB=off GOTOOLCHAIN=local
WT=/tmp/wt/v_$ID
git -C /repo worktree remove --force $WT 2>/dev/null
git -C /repo worktree add -q --detach $WT HEAD || exit 2
cd $WT
DD=${DEMO_DIR:-.}
cp $C/demo_test.go $WT/$DD/seeded_${ID}_demo_test.go
T=$(grep -o 'func TestSeed[A-Za-z0-9_]*' $DD/seeded_${ID}_demo_test.go | head -1 | sed 's/func //')
R1=$(go1.26.8 test -vet=off -count=1 -run "^${T}\$" ./$DD >/tmp/wt/v_$ID.demo0.log 2>&1 && echo pass || echo fail)
git apply $C/patch.diff || { echo "$ID patch does not apply"; exit 2; }
R2=$(go1.26.8 test -vet=off -count=1 -run "^${T}\$" ./$DD >/tmp/wt/v_$ID.demo1.log 2>&1 && echo pass || echo fail)
rm $DD/seeded_${ID}_demo_test.go
R3=$(go1.26.8 test -vet=off -count=1 ./... >/tmp/wt/v_$ID.suite.log 2>&1 && echo pass || echo fail)
if [ "$R3" = fail ]; then R3=$(go1.26.8 test -vet=off -count=1 ./... >/tmp/wt/v_$ID.suite.log 2>&1 && echo pass || echo fail-twice); fi
echo "$ID demo_without=$R1 demo_with=$R2 suite_with=$R3 test=$T"
if [ "$R1" = pass ] && [ "$R2" = fail ] && [ "$R3" = pass ]; then
  mkdir -p /verif/seeded/$ID
  cp $C/patch.diff /verif/seeded/$ID/patch.diff
  cp $C/demo_test.go /verif/seeded/$ID/demo_test.go
  python3 - "$C/meta.json" "/verif/seeded/$ID/meta.json" "$ID" "$T" <<'PY'
import json,sys
src,dst,id_,t=sys.argv[1:5]
try: m=json.load(open(src))
except Exception: m={}
out={"id":id_,"property":m.get("property",id_[:3]),"summary":m.get("summary",""),"needs":m.get("needs",""),"files":m.get("files",[]),
 "demonstration":{"file":"demo_test.go","place":"directory %s of the repository (copy as <name>_test.go)"%__import__("os").environ.get("DEMO_DIR","."),"test":t},
 "confirmed":{"base":"/repo HEAD incl. fix commits","demo_without_patch":"pass","demo_with_patch":"fail","suite_with_patch":"pass",
   "commands":["go test -vet=off -count=1 -run ^%s$ .  (without patch)"%t,"git apply patch.diff","go test -vet=off -count=1 -run ^%s$ ."%t,"go test -vet=off -count=1 ./..."]},
 "origin":"written by an independent sub-agent that saw only the property text and a scratch worktree"}
json.dump(out,open(dst,"w"),indent=1)
PY
fi
cd /; git -C /repo worktree remove --force $WT
