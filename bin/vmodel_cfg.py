"""Model-checking runs of the cluster specification (Raft.tla) with TLC. Results depend on the
specification only, so they are cached by the hash of /verif/spec."""
import glob, hashlib, json, os, shutil, time
import vlib
from vlib import VERIF, RUN, CACHE

# (cfg, tla, timeout seconds, kind)   kind: "complete" = the bounded instance must be explored completely;
# "box" = time-boxed breadth-first search (every behaviour up to the depth reached); "probe" = the cfg checks
# the NEGATION of the situation its family is about and must report it violated (non-vacuity of the family)
CONFIGS = {
    "quick": [("MC2_tiny_sync.cfg", "MC2.tla", 240, "complete"), ("MC2_tiny_async.cfg", "MC2.tla", 300, "complete"),
              ("MCF_xfer.cfg", "MCF.tla", 300, "complete"), ("MCF_flow.cfg", "MCF.tla", 300, "complete"),
              ("MCF_xfer_probe.cfg", "MCF.tla", 300, "probe"), ("MCF_flow_probe.cfg", "MCF.tla", 300, "probe")],
    "thorough": [("MC2_tiny_sync.cfg", "MC2.tla", 600, "complete"), ("MC2_tiny_async.cfg", "MC2.tla", 600, "complete"),
                 ("MC2_tiny_crash.cfg", "MC2.tla", 900, "complete"),
                 ("MCF_xfer.cfg", "MCF.tla", 600, "complete"), ("MCF_flow.cfg", "MCF.tla", 600, "complete"),
                 ("MCF_reads1.cfg", "MCF.tla", 900, "complete"), ("MCF_tick.cfg", "MCF.tla", 1200, "complete"),
                 ("MCF_xfer_probe.cfg", "MCF.tla", 300, "probe"), ("MCF_flow_probe.cfg", "MCF.tla", 300, "probe"),
                 ("MCF_reads_probe.cfg", "MCF.tla", 300, "probe"), ("MCF_tick_probe.cfg", "MCF.tla", 300, "probe"),
                 ("MCF_snap_probe.cfg", "MCF.tla", 600, "probe"),
                 ("MC2_sync.cfg", "MC2.tla", 240, "box"), ("MC3_sync.cfg", "MC3.tla", 240, "box"), ("MC3_async.cfg", "MC3.tla", 240, "box"),
                 ("MCF_reads.cfg", "MCF.tla", 240, "box"), ("MCF_conf.cfg", "MCF.tla", 300, "box"), ("MCF_snap.cfg", "MCF.tla", 300, "box")],
}


def spec_hash():
    h = hashlib.sha256()
    for f in sorted(glob.glob(os.path.join(VERIF, "spec", "*"))):
        if f.endswith((".tla", ".cfg")):
            h.update(f.encode())
            h.update(open(f, "rb").read())
    return h.hexdigest()[:20]


def run(pid, tier, seed):
    key = "model_%s_%s" % (spec_hash(), tier)
    os.makedirs(CACHE, exist_ok=True)
    rfile = os.path.join(CACHE, key + ".json")
    with vlib.Lock(os.path.join(CACHE, key + ".lock")):
        if os.path.exists(rfile):
            return json.load(open(rfile))
        workdir = os.path.join(RUN, "m%d" % os.getpid())
        shutil.rmtree(workdir, ignore_errors=True)
        os.makedirs(workdir)
        runs = []
        try:
            for cfg, tla, tmo, kind in CONFIGS[tier]:
                r = vlib.run_tlc_model(cfg, tla, workdir, workers=max(2, vlib.NCPU // 2), timeout=tmo, heap="12g")
                r.pop("out", None)
                r["kind"] = kind
                r["expected_complete"] = kind == "complete"
                if kind == "probe":
                    r["probe_reached"] = bool(r["violated"])
                runs.append(r)
        finally:
            shutil.rmtree(workdir, ignore_errors=True)
        real = [r for r in runs if r["kind"] != "probe"]
        res = {"runs": runs,
               "states": sum(r["distinct"] for r in real), "transitions": sum(r["generated"] for r in real),
               "exhaustive": all(r["complete"] for r in real if r["kind"] == "complete"),
               "spec_defects": [(r["cfg"], v) for r in real for v in r["violated"]] +
                               [(r["cfg"], "probe not reached: the family instance is vacuous") for r in runs
                                if r["kind"] == "probe" and not r["probe_reached"] and not r["timed_out"]] +
                               [(r["cfg"], "TLC evaluation error: " + r["error_tail"][-300:]) for r in runs if r.get("error_tail")],
               "incomplete": [r["cfg"] for r in real if r["kind"] == "complete" and not r["complete"]]}
        if not res["incomplete"]:
            json.dump(res, open(rfile, "w"))
        return res
