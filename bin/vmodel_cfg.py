"""Model-checking runs of the cluster specification (Raft.tla) with TLC. Results depend on the
specification only, so they are cached by the hash of /verif/spec."""
import glob, hashlib, json, os, shutil, time
import vlib
from vlib import VERIF, RUN, CACHE

# (cfg, tla, timeout seconds, expected to complete)
CONFIGS = {
    "quick": [("MC2_tiny_sync.cfg", "MC2.tla", 240, True), ("MC2_tiny_async.cfg", "MC2.tla", 300, True)],
    "thorough": [("MC2_tiny_sync.cfg", "MC2.tla", 600, True), ("MC2_tiny_async.cfg", "MC2.tla", 600, True),
                 ("MC2_tiny_crash.cfg", "MC2.tla", 900, True),
                 ("MC2_sync.cfg", "MC2.tla", 600, False), ("MC3_sync.cfg", "MC3.tla", 600, False), ("MC3_async.cfg", "MC3.tla", 600, False)],
}


def spec_hash():
    h = hashlib.sha256()
    for f in sorted(glob.glob(os.path.join(VERIF, "spec", "*"))):
        if f.endswith((".tla", ".cfg")):
            h.update(f.encode())
            h.update(open(f, "rb").read())
    return h.hexdigest()[:20]


def run(pid, tier, seed):
    key = "model_%s_%s" % (spec_hash(), tier)
    os.makedirs(CACHE, exist_ok=True)
    rfile = os.path.join(CACHE, key + ".json")
    with vlib.Lock(os.path.join(CACHE, key + ".lock")):
        if os.path.exists(rfile):
            return json.load(open(rfile))
        workdir = os.path.join(RUN, "m%d" % os.getpid())
        shutil.rmtree(workdir, ignore_errors=True)
        os.makedirs(workdir)
        runs = []
        try:
            for cfg, tla, tmo, complete in CONFIGS[tier]:
                r = vlib.run_tlc_model(cfg, tla, workdir, workers=max(2, vlib.NCPU // 2), timeout=tmo, heap="12g")
                r.pop("out", None)
                r["expected_complete"] = complete
                runs.append(r)
        finally:
            shutil.rmtree(workdir, ignore_errors=True)
        res = {"runs": runs,
               "states": sum(r["distinct"] for r in runs), "transitions": sum(r["generated"] for r in runs),
               "exhaustive": all(r["complete"] for r in runs),
               "spec_defects": [(r["cfg"], v) for r in runs for v in r["violated"]]}
        if all(r["complete"] or not r["expected_complete"] for r in runs):
            json.dump(res, open(rfile, "w"))
        return res
