"""Small instances of the cluster specification shared by the corpus generator (S2) and the simulation source (S1)."""
BASES = {  # name -> (tla, cfg template constants)
    "2sync": ("MC2.tla", dict(Node="{1, 2}", MCCl="Cl2Sync", Actors="ActorsTwo", Bound="BoundS2", Psz="Psz1", CC="NoCCs")),
    "2async": ("MC2.tla", dict(Node="{1, 2}", MCCl="Cl2Async", Actors="ActorsTwo", Bound="BoundS2", Psz="Psz1", CC="NoCCs")),
    "2prevote": ("MC2.tla", dict(Node="{1, 2}", MCCl="Cl2PreVote", Actors="ActorsTwo", Bound="BoundS2", Psz="Psz1", CC="NoCCs")),
    "3sync": ("MC3.tla", dict(Node="{1, 2, 3}", MCCl="Cl3Sync", Actors="Actors3", Bound="Bound3", Psz="Psz3", CC="NoCCs3")),
    "3async": ("MC3.tla", dict(Node="{1, 2, 3}", MCCl="Cl3Async", Actors="Actors3", Bound="Bound3", Psz="Psz3", CC="NoCCs3")),
    "reads": ("MCF.tla", dict(Node="{1, 2}", MCCl="ClReads", Actors="ActorsReads", Bound="BoundReads", Psz="PszF", CC="NoCCsF")),
    "reads1": ("MCF.tla", dict(Node="{1, 2}", MCCl="ClReads", Actors="ActorsReads1", Bound="BoundReads1", Psz="PszF", CC="NoCCsF")),
    "conf": ("MCF.tla", dict(Node="{1, 2, 3}", MCCl="ClConf", Actors="ActorsConf", Bound="BoundConf", Psz="PszF", CC="CCsConf")),
    "snap": ("MCF.tla", dict(Node="{1, 2, 3}", MCCl="ClSnap", Actors="ActorsSnap", Bound="BoundSnap", Psz="PszF", CC="NoCCsF")),
    "tick": ("MCF.tla", dict(Node="{1, 2}", MCCl="ClTick", Actors="ActorsTick", Bound="BoundTick", Psz="PszF", CC="NoCCsF")),
    "xfer": ("MCF.tla", dict(Node="{1, 2}", MCCl="ClXfer", Actors="ActorsXfer", Bound="BoundXfer", Psz="PszF", CC="NoCCsF")),
    "flow": ("MCF.tla", dict(Node="{1, 2}", MCCl="ClFlow", Actors="ActorsFlow", Bound="BoundFlow", Psz="PszF", CC="NoCCsF")),
}


SIM_CFG = """SPECIFICATION Spec
CONSTANTS
  Node = %(Node)s
  Weaken = {}
  MCCl <- %(MCCl)s
  PszSet <- %(Psz)s
  CCSet <- %(CC)s
  Actors <- %(Actors)s
  Bound <- %(Bound)s
CONSTRAINT StateBound
CHECK_DEADLOCK FALSE
"""
