#!/usr/bin/env python3
"""gen-corpus.py [guard ...]: for each guard switch of the specification, model-check the weakened
specification (Weaken = {guard}) on small configs; the shortest counterexample TLC finds is converted into a
schedule (corpus/G_<guard>__<cfg>.json) that the harness replays on the real code on every run (S2).
A guard no config kills is reported as not exercised within these bounds."""
import json, os, re, shutil, subprocess, sys, time
sys.path.insert(0, os.path.dirname(os.path.abspath(__file__)))
import vlib
from vlib import VERIF, RUN

from vbases import BASES
DEFAULT = ["2sync", "2async", "3sync"]
# where each guard's situation can arise at all
GMAP = {
    "ro_wait_own_term_commit": ["reads1", "reads"], "singleton_read_needs_own_vote": ["reads1", "reads"],
    "pending_conf_gate": ["conf"], "joint_gate": ["conf"], "leave_joint_gate": ["conf"], "auto_leave": ["conf"], "hup_unapplied_conf": ["conf"],
    "restore_member_only": ["snap"], "restore_match_fast_forward": ["snap"], "restore_index_le_commit": ["snap"],
    "snapshot_pauses_append": ["snap"], "snapshot_blocks_apply": ["snap"],
    "lease_ignores_vote": ["tick", "2prevote"], "check_quorum_step_down": ["tick"], "prevote_grant_for_this_term": ["tick", "2prevote"],
    "inflights_full": ["flow"], "uncommitted_size_limit": ["flow"],
    "stable_to_term_match": ["2async", "3async"], "resp_after_append": ["2async", "3async"],
    "leader_after_own_vote_durable": ["2async", "3async"],
    "ro_quorum_ack": ["reads1", "reads"], "ro_reset_on_term_change": ["reads"],
    "commit_quorum_joint": ["conf"], "new_leader_pending_conf": ["conf"],
    "self_ack_after_persist": ["2async", "3async"], "self_vote_after_persist": ["2async", "3async"], "apply_stable_only_async": ["2async", "3async"],
    "max_size_per_msg": ["flow"], "prevote_keeps_term": ["tick", "2prevote"],
    "heartbeat_commit_clamp": ["3sync", "2sync"], "follower_commit_clamp": ["3sync", "2sync"], "conflict_from_first_mismatch": ["3sync", "2sync"],
    "commit_current_term": ["3sync", "2sync"],
    "append_prev_match": ["3sync", "2sync", "xfer"], "append_below_commit": ["3sync", "2sync"], "commit_monotone": ["3sync", "2sync"],
}
INVS = re.findall(r"^(C\d\d_\w+) ==", open(os.path.join(VERIF, "spec", "RaftProps.tla")).read(), re.M)
CFG = """SPECIFICATION Spec
CONSTANTS
  Node = %(Node)s
  Weaken = {"%(guard)s"}
  MCCl <- %(MCCl)s
  PszSet <- %(Psz)s
  CCSet <- %(CC)s
  Actors <- %(Actors)s
  Bound <- %(Bound)s
INVARIANTS
  """ + "\n  ".join(INVS) + """
CONSTRAINT StateBound
VIEW View
CHECK_DEADLOCK FALSE
"""


def cc_str(cc):
    return cc["trans"] + ":" + " ".join("%s%d" % (c["t"], c["id"]) for c in cc["changes"])


def to_schedule(trace, base):
    states = trace["counterexample"]["state"]
    cl = states[0][1]["cl"]
    nodes = []
    for n in cl["nodes"]:
        if not n.get("exists", True):
            continue
        n = dict(n)
        n.pop("exists", None)
        nodes.append(n)
    steps = []
    for _, st in states[1:]:
        a = st["act"]
        name = a["name"]
        s = {"act": name}
        if a["node"]:
            s["node"] = a["node"]
        if name in ("Propose", "ProposeConfChange"):
            s["pid"] = a["pid"]
            if name == "Propose":
                s["psz"] = a["psz"]
            else:
                s["cc"] = cc_str(a["ents"][0]["cc"])
        elif name == "ReadIndex":
            s["rid"] = a["rid"]
        elif name in ("TransferLeader", "ReportUnreachable", "ReportSnapshot"):
            s["to"] = a["to"]
            s["ok"] = a.get("ok", False)
        elif name in ("Deliver", "Drop"):
            m = a["msg"]
            s.pop("node", None)
            s["keep"] = a.get("keep", False)
            s["sel"] = {"type": m["type"], "from": m["from"], "to": m["to"], "term": m["term"], "index": m["index"],
                        "reject": m["reject"], "nents": len(m["entries"])}
        elif name == "AppendThread":
            s["keep"] = a.get("keep", False)
        elif name == "CrashInAppend":
            s["k"] = a["k"]
        elif name == "Restart":
            s["applied"] = a["k"]
        elif name in ("Snapshot", "Compact"):
            s["k"] = a["k"]
        steps.append(s)
    return {"cluster": {"nodes": nodes, "conf": cl["conf"], "profile": "corpus:" + base, "seed": 0}, "rto": [], "steps": steps}


def main():
    guards = sys.argv[1:]
    if not guards:
        txt = open(os.path.join(VERIF, "spec", "RaftCore.tla")).read()
        guards = sorted(set(re.findall(r'(?:Guard|Weak|Block)\("([a-z_]+)"', txt)))
    work = os.path.join(RUN, "gc%d" % os.getpid())
    os.makedirs(work)
    os.makedirs(os.path.join(VERIF, "corpus"), exist_ok=True)
    report = {}
    tmo = int(os.environ.get("TMO", "120"))
    try:
        sd = vlib.spec_dir(work)
        for g in guards:
            killed = []
            for base in GMAP.get(g, DEFAULT):
                tla, consts = BASES[base]
                cfg = "G_%s_%s.cfg" % (g, base)
                open(os.path.join(sd, cfg), "w").write(CFG % dict(consts, guard=g))
                tj = os.path.join(work, "trace_%s_%s.json" % (g, base))
                r = vlib.run_tlc_model(cfg, tla, work, workers=max(2, vlib.NCPU // 2), timeout=tmo, heap="8g", extra=["-dumpTrace", "json", tj])
                if r["violated"] and os.path.exists(tj):
                    sched = to_schedule(json.load(open(tj)), base)
                    sched["guard"] = g
                    sched["violates"] = r["violated"]
                    sched["model_states"] = r["distinct"]
                    out = os.path.join(VERIF, "corpus", "G_%s__%s.json" % (g, base))
                    json.dump(sched, open(out, "w"), indent=0)
                    killed.append((base, len(sched["steps"]), r["distinct"]))
                    if len(killed) >= int(os.environ.get("MAXPER", "2")):
                        break
            report[g] = killed
            print(g, killed if killed else "NOT KILLED within bounds", flush=True)
    finally:
        shutil.rmtree(work, ignore_errors=True)
    gfile = os.path.join(VERIF, "corpus", "GUARDS.json")
    old = json.load(open(gfile)) if os.path.exists(gfile) else {}
    old.update(report)
    json.dump(old, open(gfile, "w"), indent=1, sort_keys=True)


if __name__ == "__main__":
    main()
