"""Evidence files (schema /root/.vp/EVIDENCE.schema.json)."""
import json, os
import vlib

FORMULAS = None


def formulas_of(pid):
    import re
    txt = open(os.path.join(vlib.VERIF, "spec", "TraceObs.tla")).read()
    return sorted(set(re.findall(r'"(%s_\w+)"' % pid, txt)))


RELEVANT = {
    "C01": ("ready:committed", "apply:", "became-leader", "restart", "snapshot:", "crash"),
    "C02": ("deliver:Vote", "deliver:PreVote", "became-leader", "restart", "crash", "event-in-joint"),
    "C03": ("deliver:App", "deliver:Snap", "crash", "restart", "deliver:duplicate"),
    "C04": ("became-leader", "deliver:App", "deliver:Vote", "deliver:TimeoutNow", "event-in-joint"),
    "C05": ("crash", "restart", "ready:no-fsync", "ready:hardstate", "deliver:Vote", "deliver:App"),
    "C06": ("deliver:AppResp", "deliver:Heartbeat", "deliver:Snap", "event-in-joint", "became-leader"),
    "C07": ("ready:hardstate", "restart", "crash", "deliver:"),
    "C08": ("ready:committed", "ready:snapshot", "restart"),
    "C09": ("deliver:Snap", "snapshot:", "ready:snapshot", "deliver:duplicate"),
    "C10": ("apply:conf-change", "propose:", "event-in-joint", "became-leader"),
    "C11": ("ready:read-states", "deliver:ReadIndex", "deliver:Heartbeat"),
    "C14": ("panic", "deliver:", "crash", "restart"),
    "C15": ("crash", "restart", "event-in-joint", "deliver:Snap"),
    "C16": ("deliver:App", "deliver:AppResp", "propose:", "deliver:Snap"),
    "C17": ("deliver:PreVote", "deliver:Vote", "became-leader"),
    "C19": ("became-leader", "event-in-joint"),
    "C20": ("propose:", "deliver:Prop"),
}


def relevant(pid, k):
    return any(k.startswith(p) for p in RELEVANT.get(pid, ("",)))


def cluster_evidence(pid, tier, seed, res, model, new, known, wall, foc=None):
    states = int(model.get("states", 0))
    transitions = int(model.get("transitions", 0))
    cov = {
        "states": max(states, 1) if states else res["events"],
        "transitions": max(transitions, 1) if transitions else res["events"],
        "traces_validated_against_impl": res.get("traces_conforming", res["traces"]),
        "traces_recorded": res["traces"],
        "drift_events": res.get("drift_events", 0),
        "drift_samples": res.get("drift_samples", []),
        "samples": res.get("sample_events", [])[:5] or [{"note": "no events"}],
        "observed_events": res["events"],
        "formulas": formulas_of(pid),
        "actions_executed_on_real_code": res.get("acts", {}),
        "situations_exercised": {k: v for k, v in sorted(res.get("kinds", {}).items()) if relevant(pid, k)},
        "traces_by_driver": res.get("profiles", {}),
        "model_runs": [{k: v for k, v in r.items() if k != "out"} for r in model.get("runs", [])],
        "states_note": ("states/transitions are TLC's distinct/generated states of this run's model configs"
                        if states else
                        "no model config for this property yet: states = states of real executions evaluated by TLC (Observe mode)"),
        "exhaustive": bool(model.get("exhaustive", False)),
        "exhaustive_scope": "the TLC model configs listed under model_runs (bounded 2-voter instances of Raft.tla) were explored completely; the recorded real executions are a finite, seed-dependent sample",
        "spec_defects": model.get("spec_defects", []),
        "corpus_schedules": len(res.get("corpus", [])),
        "spec_behaviours_replayed_on_impl": res.get("s1", {}),
        "determinism_diffs": res.get("det_diffs", 0),
        "cached_cluster_run": bool(res.get("cached")),
        "known_findings_hit": {k: len(v[1]) for k, v in known.items()},
    }
    if foc:
        cov["focused_runs"] = {"scenarios": foc["scenarios"], "traces": foc["traces"], "observed_events": foc["events"],
                               "drift_events": foc.get("drift_events", 0), "panics": len(foc.get("panics", [])),
                               "situations_exercised": {k: v for k, v in sorted(foc.get("kinds", {}).items()) if relevant(pid, k)},
                               "wall_s": foc.get("wall_s"), "cached": bool(foc.get("cached"))}
        cov["traces_recorded"] += foc["traces"]
        cov["traces_validated_against_impl"] += foc["traces"]
        cov["observed_events"] += foc["events"]
    ev = {
        "property_id": pid, "tier": tier, "seed": seed, "level": "model_checking",
        "coverage": cov,
        "assumptions": [
            "verdicts come from TLC evaluating the TLA+ formulas of spec/RaftProps.tla on states recorded from real RawNodes (harness/, build tag verif)",
            "the harness application follows the Ready/Advance or storage-thread contract as stated in DESIGN.md section 4",
            "MemoryStorage is the durable medium; snapshot+HardState of one Ready are written atomically",
        ],
        "wall_s": round(wall, 2),
        "violations": len(new),
    }
    vlib.write_evidence(pid, ev)
