#!/bin/bash
# mutants.sh [ids...]: run the check of each seeded change's property on a scratch worktree of /repo with the
# change applied (development aid). Works from whatever copy of /verif it is started in; results in
# <root>/.run/mutants/<id>.txt and a summary line per mutant on stdout.
ROOT=$(cd "$(dirname "$0")/.." && pwd)
mkdir -p $ROOT/.run/mutants
IDS=${@:-$(ls -d /verif/seeded/*/ | xargs -n1 basename)}
for id in $IDS; do
  prop=${id%%_*}
  WT=/tmp/wt/m_$id
  git -C /repo worktree remove --force $WT 2>/dev/null
  git -C /repo worktree add -q --detach $WT HEAD || continue
  git -C $WT apply /verif/seeded/$id/patch.diff || { echo "$id: patch failed"; continue; }
  out=$ROOT/.run/mutants/$id.txt
  rm -f $ROOT/.run/mutants/$id.result.json
  ( cd $ROOT && VERIF_RESULT_COPY=$ROOT/.run/mutants/$id.result.json VERIF_REPO=$WT VERIF_SEED=${VERIF_SEED:-1} bin/check $prop --tier ${TIER:-quick} > $out 2>&1; echo "exit=$?" >> $out )
  python3 - $ROOT/.run/mutants/$id.result.json >> $out <<'PY'
import json,os,sys,collections
if os.path.exists(sys.argv[1]):
    r=json.load(open(sys.argv[1]))
    c=collections.Counter(v['inv'] for v in r.get('violations',[]))
    print('ALL-FORMULAS', dict(c), 'panics', len(r.get('panics',[])), 'events', r.get('events'), 'drift', r.get('drift_events'))
else:
    print('ALL-FORMULAS (no result: the check did not get that far)')
PY
  echo "$id $(grep -c '^VIOLATION' $out) violation-lines; $(tail -2 $out | tr '\n' ' ')"
  git -C /repo worktree remove --force $WT
done
