#!/bin/bash
# dev helper: run Observe mode on a trace file
T=${1:-/verif/.run/t/small.ndjson}
rm -rf /verif/.run/obs && mkdir -p /verif/.run/obs && cp /verif/spec/*.tla /verif/spec/*.cfg /verif/.run/obs/ && cd /verif/.run/obs && VERIF_TRACE=$T timeout ${2:-600} tlc -workers 1 -metadir /verif/.run/obs/meta -config TraceObs.cfg TraceObs.tla 2>&1 | grep -v "^Parsing\|^Semantic\|^Linting"
