#!/bin/bash
# benign.sh [ids...]: behaviour-changing but property-preserving variants of /repo (benign/NN.diff, written by
# an independent sub-agent; the pinned suite passes with each). The shared run must report NO violation of
# any formula on them (DRIFT is expected and is not a verdict). Development aid, same mechanics as mutants.sh.
ROOT=$(cd "$(dirname "$0")/.." && pwd)
mkdir -p $ROOT/.run/benign
IDS=${@:-$(ls /verif/benign | grep diff | sed 's/.diff//')}
for id in $IDS; do
  WT=/tmp/wt/b_$id
  git -C /repo worktree remove --force $WT 2>/dev/null
  git -C /repo worktree add -q --detach $WT HEAD || continue
  git -C $WT apply /verif/benign/$id.diff || { echo "$id: patch failed"; continue; }
  for prop in ${PROPS:-C01}; do
    out=$ROOT/.run/benign/${id}_$prop.txt
    rm -f $ROOT/.run/benign/${id}_$prop.result.json*
    ( cd $ROOT && VERIF_RESULT_COPY=$ROOT/.run/benign/${id}_$prop.result.json VERIF_REPO=$WT VERIF_SEED=${VERIF_SEED:-1} bin/check $prop --tier ${TIER:-quick} > $out 2>&1; echo "exit=$?" >> $out )
    python3 - $ROOT/.run/benign/${id}_$prop.result.json $id $prop <<'PY'
import json,os,sys,collections
f,mid,prop=sys.argv[1:4]
line="%s %s:"%(mid,prop)
for suf in ("", ".focus"):
    if os.path.exists(f+suf):
        r=json.load(open(f+suf))
        c=collections.Counter((v['inv'],tuple(v.get('tags',[]))) for v in r.get('violations',[]))
        line+=" [%s] formulas=%s drift=%s panics=%d events=%s" % ("shared" if not suf else "focus", dict(c), r.get('drift_events'), len(r.get('panics',[])), r.get('events'))
print(line, flush=True)
PY
    grep -h "^VIOLATION\|^MACHINERY\|^SPEC-DEFECT" $out | head -3
  done
  git -C /repo worktree remove --force $WT
done
