#!/bin/bash
# dev helper: run a model config
CFG=$1; TLA=${2:-MC2.tla}; shift; shift
rm -rf /verif/.run/mc && mkdir -p /verif/.run/mc && cp /verif/spec/*.tla /verif/spec/*.cfg /verif/.run/mc/ && cd /verif/.run/mc && timeout ${TMO:-600} tlc -workers ${W:-8} -metadir /verif/.run/mc/meta -config $CFG "$@" $TLA 2>&1 | grep -v "^Parsing\|^Semantic\|^Linting"
