#!/bin/bash
# dev helper: list drift per (act, fields) and show details of the first few
VERIF_CONFORM=1 VERIF_DRIFT_DETAIL=1 /verif/bin/obs-dev.sh $1 2>&1 > /verif/.run/drift.out
python3 - <<'PY'
import re,collections
t=open('/verif/.run/drift.out').read()
t2=re.sub(r'\s+',' ',t)
c=collections.Counter()
for m in re.finditer(r'<< "OBS-DRIFT", "line", (\d+), "tr", (\d+), "act", "(\w+)", "node", (\d+), "fields", (\{.*?\}) >>',t2):
    c[(m.group(3),m.group(5))]+=1
for k,v in c.most_common(40): print(v,k)
det=re.findall(r'<< "OBS-DRIFT".*?(?=<< "OBS-DRIFT"|<<"OBS-DONE"|<< "OBS-DONE"|$)',t2)
for d in det[:int(__import__('os').environ.get('N','4'))]: print(d[:1800]); print()
print(re.findall(r'OBS-DONE.*?>>',t2))
PY
