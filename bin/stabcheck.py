import json,sys
evs={}
for l in open(sys.argv[1]):
    e=json.loads(l)
    if e['act'] in('Stabilized','Init'): evs.setdefault(e['tr'],[]).append(e)
bad=0
for tr,es in evs.items():
    st=[e for e in es if e['act']=='Stabilized']
    leaders=[e for e in st if e['n']['role']=='L']
    ok=len(leaders)==1
    if ok:
        l=leaders[0]['n']; last=l['last']
        mem=set(l['cfg']['voters'])|set(l['cfg']['outgoing'])|set(l['cfg']['learners'])|set(l['cfg']['learnersNext'])
        ups={e['node']:e for e in st}
        ok = l['commit']==last and l['applied']==last and mem<=set(ups) and all(ups[j]['n']['last']==last and ups[j]['n']['commit']==last and ups[j]['n']['applied']==last for j in mem) and all(p['state']=='Replicate' and p['match']==last for p in l['prs'] if p['id']!=leaders[0]['node']) and not l['cfg']['autoLeave'] and l['transferee']==0
    if not ok:
        bad+=1
        print('tr',tr,es[0]['cl']['profile'],es[0]['cl']['seed'],[(e['node'],e['n']['role'],e['n']['term'],e['n']['commit'],e['n']['applied'],e['n']['last'],e['n']['cfg']['voters'],e['n']['cfg']['outgoing'],e['n']['cfg']['autoLeave']) for e in st], [(p['id'],p['state'],p['match']) for p in (leaders[0]['n']['prs'] if leaders else [])])
print('bad',bad,'of',len(evs))
