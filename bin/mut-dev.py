#!/usr/bin/env python3
"""mut-dev.py <seeded-id|none> <profile> <runs> [seed] : development loop - build the harness against a scratch
worktree with one seeded change applied, record <runs> traces with one profile/scenario, observe+conform them,
print formula and drift counts."""
import sys, os, subprocess, json, collections, shutil, time
sys.path.insert(0, os.path.dirname(os.path.abspath(__file__)))
mid, prof, runs = sys.argv[1], sys.argv[2], int(sys.argv[3])
seed = int(sys.argv[4]) if len(sys.argv) > 4 else 1
steps = int(os.environ.get("STEPS", "260"))
wt = "/tmp/wt/d_%s_%d" % (mid, os.getpid())
if mid != "none":
    subprocess.run(["git", "-C", "/repo", "worktree", "add", "-q", "--detach", wt, "HEAD"], check=True)
    subprocess.run(["git", "-C", wt, "apply", "/verif/seeded/%s/patch.diff" % mid], check=True)
    os.environ["VERIF_REPO"] = wt
import vlib
work = os.path.join(vlib.RUN, "md%d" % os.getpid())
os.makedirs(work)
try:
    hb = vlib.build_harness(work)
    n = 8
    files = []
    procs = []
    for k in range(n):
        out = os.path.join(work, "t%d.ndjson" % k)
        files.append(out)
        procs.append(subprocess.Popen([hb, "random", "-seed", str(seed * 100 + k), "-runs", str(max(1, runs // n)), "-steps", str(steps), "-profile", prof, "-out", out] + (["-stabilize", os.environ["STAB"]] if os.environ.get("STAB") else []),
                                      stdout=subprocess.PIPE, text=True))
    pan = []
    ev = 0
    for p in procs:
        o, _ = p.communicate()
        s = json.loads(o.strip().splitlines()[-1])
        pan += s["panics"]
        ev += s["events"]
    t0 = time.time()
    obs = vlib.observe(files, work)
    c = collections.Counter(v["inv"] for v in obs["violations"])
    d = collections.Counter((x["act"], x["fields"][:80]) for x in obs["drift"])
    print("events", ev, "panics", len(pan), pan[:2], "obs %.0fs" % (time.time() - t0))
    print("VIOLATIONS", dict(c))
    print("DRIFT", len(obs["drift"]), d.most_common(6))
    if obs["tlc_errors"]:
        print("TLC ERRORS", obs["tlc_errors"][0]["tail"][-800:])
finally:
    shutil.rmtree(work, ignore_errors=True)
    if mid != "none":
        subprocess.run(["git", "-C", "/repo", "worktree", "remove", "--force", wt])
