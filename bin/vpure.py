"""Pure-function engines (DESIGN.md 4.4): C12 Quorum, C13 ConfChange, C18 LogStore.
TLC enumerates the complete bounded state space of a small TLA+ module whose states carry the
value the declarative definition assigns; the harness runs the real function on every state."""
import json, os, shutil, subprocess, time
import vlib
from vlib import VERIF, RUN, MachineryError

ENGINES = {
    "C12": dict(tla="MCQuorum.tla", cfg={"quick": "MCQuorum.cfg", "thorough": "MCQuorum_thorough.cfg"}, cmd="quorum",
                needs=["Quorum.tla"], timeout={"quick": 600, "thorough": 3000}),
    "C13": dict(tla="MCConfChange.tla", cfg={"quick": "MCConfChange.cfg", "thorough": "MCConfChange_thorough.cfg"}, cmd="confchange",
                needs=["ConfChange.tla"], timeout={"quick": 600, "thorough": 3000}),
    "C18": dict(tla="MCLogStore.tla", cfg={"quick": "MCLogStore.cfg", "thorough": "MCLogStore_thorough.cfg"}, cmd="logstore",
                needs=["LogStore.tla"], timeout={"quick": 900, "thorough": 3000}),
}


def run_tlaps(workdir):
    """C12, thorough tier: the TLA+ proof system checks, for voter sets of ANY finite size, the two facts the
    quorum arithmetic exists for (two majorities intersect; a joint quorum meets every majority of either half).
    A failed proof is a defect of the machinery (exit 2), never a verdict about the code."""
    import re
    d = os.path.join(workdir, "proofs")
    os.makedirs(d)
    shutil.copy(os.path.join(VERIF, "spec", "Quorum.tla"), d)
    shutil.copy(os.path.join(VERIF, "spec", "proofs", "QuorumProofs.tla"), d)
    try:
        p = subprocess.run(["tlapm", "--threads", str(max(2, vlib.NCPU // 2)), "QuorumProofs.tla"], cwd=d, stdout=subprocess.PIPE,
                           stderr=subprocess.STDOUT, text=True, timeout=600)
    except (subprocess.TimeoutExpired, FileNotFoundError) as e:
        raise MachineryError("tlapm did not finish: %s" % e)
    m = re.search(r"All (\d+) obligations proved", p.stdout)
    if not m:
        raise MachineryError("TLAPS could not check spec/proofs/QuorumProofs.tla: " + p.stdout[-1500:])
    return {"module": "spec/proofs/QuorumProofs.tla", "theorems": ["MajoritiesIntersect", "JointMeetsEitherHalf"],
            "obligations_proved": int(m.group(1)), "scope": "voter sets of any finite size (unbounded)"}


def run(pid, tier, seed):
    t0 = time.time()
    eng = ENGINES[pid]
    workdir = os.path.join(RUN, "p%d" % os.getpid())
    shutil.rmtree(workdir, ignore_errors=True)
    os.makedirs(workdir)
    try:
        hb = vlib.build_harness(workdir)
        sd = os.path.join(workdir, "spec")
        os.makedirs(sd)
        for f in os.listdir(os.path.join(VERIF, "spec", "pure")):
            shutil.copy(os.path.join(VERIF, "spec", "pure", f), sd)
        for f in eng["needs"]:
            shutil.copy(os.path.join(VERIF, "spec", f), sd)
        dump = os.path.join(workdir, "states")
        env = dict(os.environ, VERIF_SEED=str(seed), VERIF_TIER=tier)
        res = vlib.run_tlc_model(eng["cfg"][tier], eng["tla"], workdir, timeout=eng["timeout"][tier],
                                 extra=["-dump", dump], env=env)
        if not res["complete"]:
            raise MachineryError("TLC did not complete the enumeration for %s: %s" % (pid, res.get("error_tail") or res["out"][-2000:]))
        if res["violated"]:
            raise MachineryError("the declarative TLA+ definitions violate their own sanity invariants %s (spec defect)" % res["violated"])
        p = subprocess.run([hb, eng["cmd"], "-dump", dump + ".dump", "-seed", str(seed)], stdout=subprocess.PIPE, stderr=subprocess.PIPE, text=True,
                           timeout=eng["timeout"][tier])
        if p.returncode != 0:
            raise MachineryError("harness %s failed: %s" % (eng["cmd"], (p.stderr or p.stdout)[-3000:]))
        s = json.loads(p.stdout.strip().splitlines()[-1])
        if s.get("states", s["cases"]) != res["distinct"]:
            raise MachineryError("harness read %d states but TLC enumerated %d" % (s.get("states", s["cases"]), res["distinct"]))
        replay = ""
        if s["mismatches"]:
            rd = os.path.join(RUN, "replays", "%s_seed%d_%s" % (pid, seed, tier))
            os.makedirs(rd, exist_ok=True)
            json.dump(s["bad"], open(os.path.join(rd, "cases.json"), "w"), indent=1)
            replay = rd
            print("VIOLATION property=%s replay=%s mismatching_cases=%d first=%s" % (pid, rd, s["mismatches"], json.dumps(s["bad"][0])[:600]))
        proofs = None
        if pid == "C12" and tier == "thorough":
            proofs = run_tlaps(workdir)
        ev = {
            "property_id": pid, "tier": tier, "seed": seed, "level": "model_checking",
            "coverage": {
                "states": res["distinct"], "transitions": res["generated"],
                "traces_validated_against_impl": s["cases"],
                "samples": (s.get("samples") or s.get("bad") or [{"note": "none"}])[:6],
                "exhaustive": True, "kinds": s.get("kinds", {}),
                "mismatches": s["mismatches"],
                "model_cmd": res["cmd"], "model_wall_s": res["wall_s"], "depth": res["depth"],
                "rule": "every state of the TLC model %s (cfg %s) is one case; the real function is evaluated on each and compared with the declarative TLA+ value" % (eng["tla"], eng["cfg"][tier]),
            },
            "assumptions": ["the bounded universe stated in the cfg", "TLC's evaluation of the declarative definitions"],
            "wall_s": round(time.time() - t0, 2),
            "violations": s["mismatches"],
        }
        if proofs:
            ev["coverage"]["tlaps"] = proofs
        vlib.write_evidence(pid, ev)
        return 1 if s["mismatches"] else 0
    finally:
        shutil.rmtree(workdir, ignore_errors=True)
