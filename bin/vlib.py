#!/usr/bin/env python3
"""Shared machinery of /verif/bin/check: building the harness against /repo's
working tree, producing real traces, evaluating the TLA+ property formulas on
them with TLC (Observe mode), running the TLC model configs, caching, evidence."""
import fcntl, glob, hashlib, json, os, re, shutil, subprocess, sys, time

VERIF = os.path.dirname(os.path.dirname(os.path.abspath(__file__)))
REPO = os.environ.get("VERIF_REPO", "/repo")
RUN = os.path.join(VERIF, ".run")
CACHE = os.path.join(VERIF, ".cache")
JAR = "/opt/veriftools/tla/tla2tools.jar:/opt/veriftools/tla/CommunityModules-deps.jar"
GOENV = dict(os.environ, GOFLAGS="-mod=mod", GOPROXY="off", GOSUMDB="off", GOTOOLCHAIN="local",
             CGO_ENABLED="0")
GO = "go1.26.8"
NCPU = os.cpu_count() or 4


class MachineryError(Exception):
    pass


def log(*a):
    print(*a, file=sys.stderr, flush=True)


def sh(cmd, cwd=None, env=None, timeout=None, check=False):
    p = subprocess.run(cmd, cwd=cwd, env=env, timeout=timeout, stdout=subprocess.PIPE, stderr=subprocess.STDOUT,
                       text=True, shell=isinstance(cmd, str))
    if check and p.returncode != 0:
        raise MachineryError("command failed (%d): %s\n%s" % (p.returncode, cmd, p.stdout[-4000:]))
    return p


def tree_hash(extra=""):
    """sha256 over every Go source / module file of /repo's working tree and the framework itself."""
    h = hashlib.sha256()
    files = []
    for root, dirs, fs in os.walk(REPO):
        dirs[:] = [d for d in dirs if d not in (".git",)]
        for f in fs:
            if f.endswith(".go") or f in ("go.mod", "go.sum") or "/testdata" in root:
                files.append(os.path.join(root, f))
    for sub in ("spec", "harness", "bin", "corpus"):
        for root, dirs, fs in os.walk(os.path.join(VERIF, sub)):
            dirs[:] = [d for d in dirs if d not in ("__pycache__",)]
            for f in fs:
                if f.endswith((".tla", ".cfg", ".go", ".py", ".json", ".mod", ".sum")) or f == "check":
                    files.append(os.path.join(root, f))
    kf = os.path.join(VERIF, "known_findings.json")
    if os.path.exists(kf):
        files.append(kf)
    for f in sorted(files):
        h.update(f.encode())
        try:
            with open(f, "rb") as fh:
                h.update(fh.read())
        except OSError:
            pass
    h.update(extra.encode())
    return h.hexdigest()[:24]


class Lock:
    def __init__(self, path):
        self.path = path

    def __enter__(self):
        os.makedirs(os.path.dirname(self.path), exist_ok=True)
        self.f = open(self.path, "w")
        fcntl.flock(self.f, fcntl.LOCK_EX)
        return self

    def __exit__(self, *a):
        fcntl.flock(self.f, fcntl.LOCK_UN)
        self.f.close()


def build_harness(workdir):
    """go build -tags verif of /verif/harness against /repo's current working tree."""
    src = os.path.join(VERIF, "harness")
    if REPO != "/repo":
        # development aid (mutation runs on scratch worktrees): private copy of the module
        dst = os.path.join(workdir, "harness_src")
        shutil.copytree(src, dst, ignore=shutil.ignore_patterns("verifharness"))
        gm = open(os.path.join(dst, "go.mod")).read().replace("=> /repo", "=> " + REPO)
        open(os.path.join(dst, "go.mod"), "w").write(gm)
        src = dst
    # the harness module needs /repo's go.sum (no network: sums must already be known)
    try:
        shutil.copyfile(os.path.join(REPO, "go.sum"), os.path.join(src, "go.sum"))
    except OSError:
        pass
    out = os.path.join(workdir, "verifharness")
    p = sh([GO, "build", "-tags", "verif", "-o", out, "."], cwd=src, env=GOENV, timeout=600)
    if p.returncode != 0:
        raise MachineryError("harness does not build against the current tree:\n" + p.stdout[-3000:])
    return out


VIOL_RE = re.compile(
    r'<<\s*"OBS-VIOLATION",\s*"(\w+)",\s*"line",\s*(\d+),\s*"tr",\s*(\d+),\s*"act",\s*"(\w+)",\s*"node",\s*(\d+)((?:,\s*"[\w-]+")*)\s*>>')
DRIFT_RE = re.compile(r'<<\s*"OBS-DRIFT",\s*"line",\s*(\d+),\s*"tr",\s*(\d+),\s*"act",\s*"(\w+)",\s*"node",\s*(\d+),\s*"fields",\s*(\{.*?\})\s*>>', re.S)
DONE_RE = re.compile(r'<<\s*"OBS-DONE",\s*"events",\s*(\d+),\s*"violations",\s*(\d+)\s*>>')


def spec_dir(workdir):
    d = os.path.join(workdir, "spec")
    if not os.path.isdir(d):
        os.makedirs(d)
        for f in glob.glob(os.path.join(VERIF, "spec", "*")):
            if f.endswith((".tla", ".cfg")):
                shutil.copy(f, d)
    return d


def tlc_cmd(heap="3g", extra_jvm=()):
    return ["java", "-XX:+UseParallelGC", "-XX:ParallelGCThreads=4", "-Xmx" + heap, "-Xss64m", *extra_jvm, "-cp", JAR, "tlc2.TLC"]


SIM_BASES = ["2sync", "2async", "2prevote", "3sync", "3async", "reads", "conf", "snap", "tick", "xfer", "flow"]


def sim_job(hb, workdir, base, num, depth, seed, out):
    """S1: one shell pipeline: TLC simulation of a small instance -> schedules -> replay on the real code.
    The last line of its stdout is the replay summary."""
    import vbases
    sd = spec_dir(workdir)
    tla, consts = vbases.BASES[base]
    cfg = "Sim_%s.cfg" % base
    open(os.path.join(sd, cfg), "w").write(vbases.SIM_CFG % consts)
    d = os.path.join(workdir, "sim_" + base)
    os.makedirs(os.path.join(d, "sched"), exist_ok=True)
    tlc = " ".join(tlc_obs_cmd() + ["-workers", "1", "-simulate", "file=%s/s,num=%d" % (d, num), "-depth", str(depth), "-seed", str(seed),
                                    "-metadir", os.path.join(d, "meta"), "-config", cfg, "Sim.tla"])
    sh = ("cd %s && %s > %s/tlc.log 2>&1; grep -q 'Finished in' %s/tlc.log || { tail -5 %s/tlc.log >&2; exit 3; }; "
          "%s simsched -in %s/s -outdir %s/sched -tag %s > /dev/null && rm -f %s/s_* && %s replay -scheddir %s/sched -out %s -tr 1"
          % (sd, tlc, d, d, d, hb, d, d, base, d, hb, d, out))
    return ["bash", "-c", sh]


def tlc_obs_cmd():
    # many single-worker JVMs side by side: the serial collector scales best (measured)
    return ["java", "-XX:+UseSerialGC", "-Xmx2g", "-Xss64m", "-cp", JAR, "tlc2.TLC"]


def observe(trace_files, workdir, invs=None, timeout=3600):
    """Run TLC (TraceObs, Observe mode) over each trace file, in parallel. Returns
    dict(events, violations=[{inv,line,tr,act,node,file,tags}], wall_s)."""
    sd = spec_dir(workdir)
    t0 = time.time()
    procs = []
    results = {"events": 0, "violations": [], "files": len(trace_files), "tlc_errors": [], "drift": []}
    invfile = ""
    if invs is not None:
        invfile = os.path.join(workdir, "invs.json")
        json.dump(sorted(invs), open(invfile, "w"))
    pending = list(enumerate(trace_files))
    running = []
    maxpar = max(1, min(NCPU, 10))   # measured: throughput saturates at ~8 parallel JVMs on this machine

    def start(k, tf):
        meta = os.path.join(workdir, "meta_obs_%d" % k)
        env = dict(os.environ, VERIF_TRACE=tf, VERIF_INVS=invfile, VERIF_CONFORM=os.environ.get("VERIF_CONFORM", "1"))
        outf = open(os.path.join(workdir, "obs_%d.out" % k), "w")
        p = subprocess.Popen(tlc_obs_cmd() + ["-workers", "1", "-metadir", meta, "-config", "TraceObs.cfg", "TraceObs.tla"],
                             cwd=sd, env=env, stdout=outf, stderr=subprocess.STDOUT)
        return (k, tf, p, outf, meta)

    deadline = t0 + timeout
    while pending or running:
        while pending and len(running) < maxpar:
            k, tf = pending.pop(0)
            running.append(start(k, tf))
        time.sleep(0.2)
        still = []
        for (k, tf, p, outf, meta) in running:
            if p.poll() is None:
                if time.time() > deadline:
                    p.kill()
                    raise MachineryError("TLC Observe timed out on " + tf)
                still.append((k, tf, p, outf, meta))
                continue
            outf.close()
            shutil.rmtree(meta, ignore_errors=True)
            txt = open(os.path.join(workdir, "obs_%d.out" % k)).read()
            m = DONE_RE.search(txt)
            if not m:
                results["tlc_errors"].append({"file": tf, "tail": txt[-3000:]})
                continue
            results["events"] += int(m.group(1))
            for dm in DRIFT_RE.finditer(txt):
                results["drift"].append({"line": int(dm.group(1)), "tr": int(dm.group(2)), "act": dm.group(3), "node": int(dm.group(4)),
                                         "fields": re.sub(r"\s+", "", dm.group(5))[:300], "file": tf})
            for v in VIOL_RE.finditer(txt):
                tags = re.findall(r'"([\w-]+)"', v.group(6) or "")
                results["violations"].append({"inv": v.group(1), "line": int(v.group(2)), "tr": int(v.group(3)),
                                              "act": v.group(4), "node": int(v.group(5)), "file": tf, "tags": tags})
        running = still
    results["wall_s"] = round(time.time() - t0, 2)
    return results


STATES_RE = re.compile(r"(\d+) states generated, (\d+) distinct states found, (\d+) states left on queue")
DEPTH_RE = re.compile(r"The depth of the complete state graph search is (\d+)")
PROG_RE = re.compile(r"Progress\((\d+)\).*?: ([\d,]+) states generated.*?([\d,]+) distinct states found.*?([\d,]+) states left on queue")


def run_tlc_model(cfg, tla, workdir, workers=NCPU, timeout=600, heap="16g", extra=(), env=None):
    """Run TLC on a model config. Returns dict(generated, distinct, queue, depth, complete, violated, out)."""
    sd = spec_dir(workdir)
    meta = os.path.join(workdir, "meta_" + os.path.basename(cfg).replace(".cfg", ""))
    cmd = tlc_cmd(heap) + ["-workers", str(workers), "-metadir", meta, "-config", cfg, *extra, tla]
    t0 = time.time()
    timed_out = False
    try:
        p = subprocess.run(cmd, cwd=sd, env=env or os.environ, stdout=subprocess.PIPE, stderr=subprocess.STDOUT, text=True,
                           timeout=timeout)
        out = p.stdout
        rc = p.returncode
    except subprocess.TimeoutExpired as e:
        out = (e.stdout or b"").decode() if isinstance(e.stdout, bytes) else (e.stdout or "")
        rc = -1
        timed_out = True
    shutil.rmtree(meta, ignore_errors=True)
    res = {"cfg": os.path.basename(cfg), "rc": rc, "timed_out": timed_out, "wall_s": round(time.time() - t0, 1),
           "generated": 0, "distinct": 0, "queue": 0, "depth": 0, "complete": False, "violated": [], "cmd": " ".join(cmd[-8:])}
    m = None
    for m in STATES_RE.finditer(out):
        pass
    if m:
        res["generated"], res["distinct"], res["queue"] = int(m.group(1)), int(m.group(2)), int(m.group(3))
    else:
        pm = None
        for pm in PROG_RE.finditer(out):
            pass
        if pm:
            res["depth"] = int(pm.group(1))
            res["generated"], res["distinct"], res["queue"] = [int(x.replace(",", "")) for x in pm.group(2, 3, 4)]
    d = DEPTH_RE.search(out)
    if d:
        res["depth"] = int(d.group(1))
    res["complete"] = (not timed_out) and "Model checking completed" in out and res["queue"] == 0
    res["violated"] = re.findall(r"Error: Invariant (\w+) is violated", out) + re.findall(r"Error: Action property (\w+) is violated", out)
    if "Error:" in out and not res["violated"] and not res["complete"]:
        res["error_tail"] = out[-2500:]
    res["out"] = out
    return res


def write_evidence(pid, ev):
    os.makedirs(os.path.join(VERIF, "evidence"), exist_ok=True)
    path = os.path.join(VERIF, "evidence", pid + ".json")
    tmp = path + ".tmp%d" % os.getpid()
    with open(tmp, "w") as f:
        json.dump(ev, f, indent=1)
    os.replace(tmp, path)


def load_known_findings():
    p = os.path.join(VERIF, "known_findings.json")
    if not os.path.exists(p):
        return []
    return json.load(open(p)).get("findings", [])
