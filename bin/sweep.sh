#!/bin/bash
# sweep.sh <tier> <seed>...: run the shared cluster engine on the unchanged tree for several seeds and list every violated formula
ROOT=$(cd "$(dirname "$0")/.." && pwd); cd $ROOT
mkdir -p .run .cache; TIER=$1; shift
for s in "$@"; do
  VERIF_SEED=$s bin/check C01 --tier $TIER > .run/sweep_$s.txt 2>&1; e=$?
  python3 - $s $e <<'PY'
import json,os,glob,collections,sys
fs=sorted(glob.glob('.cache/[0-9a-f]*.json'),key=os.path.getmtime)
r=json.load(open(fs[-1]))
print('seed',sys.argv[1],'exit',sys.argv[2],'events',r['events'],'traces',r['traces'],'drift',r.get('drift_events'),'panics',len(r['panics']),dict(collections.Counter((v['inv'],tuple(v['tags'])) for v in r['violations'])), r.get('drift_samples',[])[:2], r['panics'][:2], flush=True)
PY
done
