package main

// JSON projection of real raft state. Every field is always present and has
// one type (no nulls), so the TLA+ side can access fields unconditionally.

import (
	"encoding/binary"
	"fmt"
	"sort"
	"strconv"
	"strings"

	"go.etcd.io/raft/v3"
	pb "go.etcd.io/raft/v3/raftpb"
	"google.golang.org/protobuf/proto"
)

type JConf struct {
	Voters       []uint64 `json:"voters"`
	Outgoing     []uint64 `json:"outgoing"`
	Learners     []uint64 `json:"learners"`
	LearnersNext []uint64 `json:"learnersNext"`
	AutoLeave    bool     `json:"autoLeave"`
}

type JEntry struct {
	Term  uint64 `json:"term"`
	Index uint64 `json:"index"`
	Type  string `json:"type"` // N | CC1 | CC2
	Pid   int    `json:"pid"`  // proposal id (0 = none / raft-made entry)
	Rid   int    `json:"rid"`  // read-context id for MsgReadIndex payload entries
	CC    JCC    `json:"cc"`   // structured conf change (trans "" if none)
	Sz    int    `json:"sz"`   // proto.Size
	Psz   int    `json:"psz"`  // len(Data)
}

type JCh struct {
	T  string `json:"t"` // v | l | r | u
	ID uint64 `json:"id"`
}

type JCC struct {
	Trans   string `json:"trans"` // "" (no conf change) | auto | implicit | explicit
	Changes []JCh  `json:"changes"`
}

func jCC(cc *pb.ConfChangeV2) JCC {
	out := JCC{Trans: "auto", Changes: []JCh{}}
	switch cc.GetTransition() {
	case pb.ConfChangeTransitionJointImplicit:
		out.Trans = "implicit"
	case pb.ConfChangeTransitionJointExplicit:
		out.Trans = "explicit"
	}
	for _, c := range cc.Changes {
		t := "u"
		switch c.GetType() {
		case pb.ConfChangeAddNode:
			t = "v"
		case pb.ConfChangeAddLearnerNode:
			t = "l"
		case pb.ConfChangeRemoveNode:
			t = "r"
		}
		out.Changes = append(out.Changes, JCh{T: t, ID: c.GetNodeId()})
	}
	return out
}

type JSnap struct {
	Has   bool   `json:"has"`
	Index uint64 `json:"index"`
	Term  uint64 `json:"term"`
	Conf  JConf  `json:"conf"`
}

type JMsg struct {
	Mid       int      `json:"mid"` // network id (0 if not in the network)
	Type      string   `json:"type"`
	From      uint64   `json:"from"`
	To        uint64   `json:"to"`
	Term      uint64   `json:"term"`
	LogTerm   uint64   `json:"logTerm"`
	Index     uint64   `json:"index"`
	Commit    uint64   `json:"commit"`
	Vote      uint64   `json:"vote"`
	Reject    bool     `json:"reject"`
	Hint      uint64   `json:"hint"`
	CtxKind   string   `json:"ctxKind"` // "" | transfer | pos | read | other
	CtxVal    int      `json:"ctxVal"`
	Entries   []JEntry `json:"entries"`
	Snap      JSnap    `json:"snap"`
	Responses []JMsg   `json:"responses"`
}

type JHS struct {
	Has    bool   `json:"has"`
	Term   uint64 `json:"term"`
	Vote   uint64 `json:"vote"`
	Commit uint64 `json:"commit"`
}

type JSS struct {
	Has  bool   `json:"has"`
	Lead uint64 `json:"lead"`
	Role string `json:"role"`
}

type JInfl struct {
	Index uint64 `json:"index"`
	Bytes uint64 `json:"bytes"`
}

type JPr struct {
	ID          uint64  `json:"id"`
	Match       uint64  `json:"match"`
	Next        uint64  `json:"next"`
	State       string  `json:"state"` // Probe | Replicate | Snapshot
	PendingSnap uint64  `json:"pendingSnap"`
	Active      bool    `json:"recentActive"`
	Paused      bool    `json:"paused"` // MsgAppFlowPaused
	IsLearner   bool    `json:"isLearner"`
	SentCommit  uint64  `json:"sentCommit"`
	Inflights   []JInfl `json:"inflights"`
	Full        bool    `json:"inflFull"`
}

type JVote struct {
	ID uint64 `json:"id"`
	V  bool   `json:"v"`
}
type JAck struct {
	ID  uint64 `json:"id"`
	Pos uint64 `json:"pos"`
}
type JRead struct {
	From  uint64 `json:"from"`
	Rid   int    `json:"rid"`
	Index uint64 `json:"index"`
}
type JReadState struct {
	Index uint64 `json:"index"`
	Rid   int    `json:"rid"`
}

type JNode struct {
	Up        bool   `json:"up"`
	Term      uint64 `json:"term"`
	Vote      uint64 `json:"vote"`
	Role      string `json:"role"` // F | PC | C | L
	Lead      uint64 `json:"lead"`
	IsLearner bool   `json:"isLearner"`

	Commit      uint64 `json:"commit"`
	Applying    uint64 `json:"applying"`
	Applied     uint64 `json:"applied"`
	ApplyingSz  uint64 `json:"applyingSz"`
	ApplyPaused bool   `json:"applyPaused"`

	UOff    uint64   `json:"uoff"`
	UOffIP  uint64   `json:"uoffip"`
	UEnts   []JEntry `json:"uents"`
	USnap   JSnap    `json:"usnap"`
	USnapIP bool     `json:"usnapip"`

	First    uint64 `json:"first"`
	Last     uint64 `json:"last"`
	LastTerm uint64 `json:"lastTerm"`

	Cfg   JConf   `json:"cfg"`
	Prs   []JPr   `json:"prs"`
	Votes []JVote `json:"votes"`
	Msgs  []JMsg  `json:"msgs"`
	After []JMsg  `json:"after"`
	SOA   []JMsg  `json:"soa"`

	Transferee    uint64 `json:"transferee"`
	PendingConf   uint64 `json:"pendingConf"`
	UncommittedSz uint64 `json:"uncommittedSz"`

	RoAcks       []JAck       `json:"roAcks"`
	RoUnc        []JRead      `json:"roUnc"`
	RoConf       uint64       `json:"roConf"`
	PendingReads []JMsg       `json:"pendingReads"`
	ReadStates   []JReadState `json:"readStates"`

	EE     int `json:"ee"`
	HE     int `json:"he"`
	RTO    int `json:"rto"`
	PrevHS JHS `json:"prevHS"`
	PrevSS JSS `json:"prevSS"`
}

type JDisk struct {
	HS    JHS      `json:"hs"`
	Snap  JSnap    `json:"snap"`
	CIdx  uint64   `json:"cidx"`  // compaction point (dummy entry) index
	CTerm uint64   `json:"cterm"` // and term
	Ents  []JEntry `json:"ents"`
}

type JReady struct {
	Has        bool         `json:"has"`
	SS         JSS          `json:"ss"`
	HS         JHS          `json:"hs"`
	Ents       []JEntry     `json:"ents"`
	Snap       JSnap        `json:"snap"`
	Committed  []JEntry     `json:"committed"`
	Msgs       []JMsg       `json:"msgs"`
	ReadStates []JReadState `json:"readStates"`
	MustSync   bool         `json:"mustSync"`
}

type JApp struct {
	Phase          string   `json:"phase"` // idle|ready|ents|hs|sent|applied
	AppendQ        []JMsg   `json:"appendQ"`
	ApplyQ         []JMsg   `json:"applyQ"`
	LocalQ         []JMsg   `json:"localQ"`
	AppliedDurable uint64   `json:"appliedDurable"`
	Inc            int      `json:"inc"`
	LastConfIdx    uint64   `json:"lastConfIdx"` // index of the newest applied conf change (durable app state)
	AppConf        JConf    `json:"appConf"`     // app's durable view of the config at appliedDurable
	Created        bool     `json:"created"`
	SD             *JDisk   `json:"sd,omitempty"` // synced image of the storage, when it differs from the live one
	_              struct{} `json:"-"`
}

type JArgs struct {
	Mid     int      `json:"mid,omitempty"`
	Keep    bool     `json:"keep,omitempty"`
	Msg     *JMsg    `json:"msg,omitempty"`
	Pid     int      `json:"pid,omitempty"`
	Psz     int      `json:"psz,omitempty"`
	CC      string   `json:"cc,omitempty"`
	V1      bool     `json:"v1,omitempty"`
	Rid     int      `json:"rid,omitempty"`
	To      uint64   `json:"to,omitempty"`
	Ok      bool     `json:"ok,omitempty"`
	K       uint64   `json:"k,omitempty"`
	Applied uint64   `json:"applied,omitempty"`
	Ents    []JEntry `json:"ents,omitempty"`
	Msgs    []JMsg   `json:"msgs,omitempty"` // messages handed to the network / released in this step
	Stepped []JMsg   `json:"stepped,omitempty"`
	Conf    *JConf   `json:"conf,omitempty"`
	RTO     int      `json:"rto,omitempty"`
}

type JNodeCfg struct {
	ID                 uint64 `json:"id"`
	PreVote            bool   `json:"preVote"`
	CheckQuorum        bool   `json:"checkQuorum"`
	Async              bool   `json:"async"`
	StepDownOnRemoval  bool   `json:"stepDownOnRemoval"`
	DisableCCValid     bool   `json:"disableCCValidation"`
	DisableForwarding  bool   `json:"disableForwarding"`
	ElectionTick       int    `json:"electionTick"`
	HeartbeatTick      int    `json:"heartbeatTick"`
	MaxSizePerMsg      uint64 `json:"maxSizePerMsg"`
	MaxCommittedSize   uint64 `json:"maxCommittedSize"`
	MaxUncommittedSize uint64 `json:"maxUncommittedSize"`
	MaxInflightMsgs    int    `json:"maxInflightMsgs"`
	MaxInflightBytes   uint64 `json:"maxInflightBytes"`
	Initial            bool   `json:"initial"` // member of the bootstrap configuration
}

type JCluster struct {
	Nodes   []JNodeCfg `json:"nodes"`
	Conf    JConf      `json:"conf"`
	Profile string     `json:"profile"`
	Seed    int64      `json:"seed"`
}

type Event struct {
	L     int       `json:"l"`
	Tr    int       `json:"tr"`
	Act   string    `json:"act"`
	Node  uint64    `json:"node"`
	Inc   int       `json:"inc"`
	A     JArgs     `json:"a"`
	Ret   string    `json:"ret"`
	Panic string    `json:"panic"`
	N     JNode     `json:"n"`
	D     JDisk     `json:"d"`
	P     JApp      `json:"p"`
	Rd    *JReady   `json:"rd,omitempty"` // only for act=Ready
	Cl    *JCluster `json:"cl,omitempty"` // only for act=Init
	Det   bool      `json:"det"`          // C19: outputs equal to the shadow replica's
	NetSz int       `json:"netSz"`
}

const noLimitU = ^uint64(0)

// clampU maps "no limit" to the NoLimit constant of the specification (TLC
// integers are 32 bit).
func clampU(v uint64) uint64 {
	if v > 1<<30 {
		return 1 << 30
	}
	return v
}

func clampCl(cl JCluster) *JCluster {
	out := cl
	out.Nodes = append([]JNodeCfg(nil), cl.Nodes...)
	for i := range out.Nodes {
		n := &out.Nodes[i]
		n.MaxSizePerMsg, n.MaxCommittedSize = clampU(n.MaxSizePerMsg), clampU(n.MaxCommittedSize)
		n.MaxUncommittedSize, n.MaxInflightBytes = clampU(n.MaxUncommittedSize), clampU(n.MaxInflightBytes)
	}
	return &out
}

func u64s(s []uint64) []uint64 {
	out := append([]uint64{}, s...)
	sort.Slice(out, func(i, j int) bool { return out[i] < out[j] })
	return out
}

func jConf(cs *pb.ConfState) JConf {
	if cs == nil {
		return JConf{Voters: []uint64{}, Outgoing: []uint64{}, Learners: []uint64{}, LearnersNext: []uint64{}}
	}
	return JConf{
		Voters: u64s(cs.Voters), Outgoing: u64s(cs.VotersOutgoing),
		Learners: u64s(cs.Learners), LearnersNext: u64s(cs.LearnersNext),
		AutoLeave: cs.GetAutoLeave(),
	}
}

func pidOf(data []byte) (pid, rid int) {
	if len(data) == 0 {
		return 0, 0
	}
	s := string(data)
	end := strings.IndexByte(s, '.')
	if end < 0 {
		end = len(s)
	}
	if len(s) > 1 && (s[0] == 'p' || s[0] == 'r') {
		if n, err := strconv.Atoi(s[1:end]); err == nil {
			if s[0] == 'p' {
				return n, 0
			}
			return 0, n
		}
	}
	return -1, 0 // unknown payload: "invented"
}

func jEntry(e *pb.Entry) JEntry {
	je := JEntry{Term: e.GetTerm(), Index: e.GetIndex(), Sz: proto.Size(e), Psz: len(e.GetData()), CC: JCC{Changes: []JCh{}}}
	switch e.GetType() {
	case pb.EntryNormal:
		je.Type = "N"
		je.Pid, je.Rid = pidOf(e.GetData())
	case pb.EntryConfChange:
		je.Type = "CC1"
		var cc pb.ConfChange
		if err := proto.Unmarshal(e.GetData(), &cc); err != nil {
			je.Pid = -1
		} else {
			je.CC = jCC(cc.AsV2())
			je.Pid, _ = pidOf(cc.Context)
		}
	case pb.EntryConfChangeV2:
		je.Type = "CC2"
		var cc pb.ConfChangeV2
		if err := proto.Unmarshal(e.GetData(), &cc); err != nil {
			je.Pid = -1
		} else {
			je.CC = jCC(&cc)
			je.Pid, _ = pidOf(cc.Context)
		}
	}
	return je
}

func jEntries(es []*pb.Entry) []JEntry {
	out := make([]JEntry, 0, len(es))
	for _, e := range es {
		out = append(out, jEntry(e))
	}
	return out
}

func jSnap(s *pb.Snapshot) JSnap {
	if s == nil || s.GetMetadata() == nil || (s.GetMetadata().GetIndex() == 0 && s.GetMetadata().GetConfState() == nil) {
		return JSnap{Conf: jConf(nil)}
	}
	md := s.GetMetadata()
	return JSnap{Has: md.GetIndex() != 0, Index: md.GetIndex(), Term: md.GetTerm(), Conf: jConf(md.GetConfState())}
}

// jid maps the local storage-thread targets (huge uint64 constants) to the small
// ids the specification uses: 1001 = LocalAppendThread, 1002 = LocalApplyThread.
func jid(u uint64) uint64 {
	switch u {
	case raft.LocalAppendThread:
		return 1001
	case raft.LocalApplyThread:
		return 1002
	}
	return u
}

func jMsg(m *pb.Message) JMsg {
	jm := JMsg{
		Type: strings.TrimPrefix(m.GetType().String(), "Msg"),
		From: jid(m.GetFrom()), To: jid(m.GetTo()), Term: m.GetTerm(), LogTerm: m.GetLogTerm(),
		Index: m.GetIndex(), Commit: m.GetCommit(), Vote: m.GetVote(),
		Reject: m.GetReject(), Hint: m.GetRejectHint(),
		Entries: jEntries(m.GetEntries()), Snap: jSnap(m.GetSnapshot()),
		Responses: []JMsg{},
	}
	if c := m.GetContext(); len(c) > 0 {
		switch {
		case string(c) == "CampaignTransfer":
			jm.CtxKind = "transfer"
		case len(c) == 8 && (m.GetType() == pb.MsgHeartbeat || m.GetType() == pb.MsgHeartbeatResp):
			jm.CtxKind = "pos"
			jm.CtxVal = int(binary.LittleEndian.Uint64(c))
		default:
			jm.CtxKind = "other"
		}
	}
	for _, r := range m.GetResponses() {
		jm.Responses = append(jm.Responses, jMsg(r))
	}
	return jm
}

func jMsgs(ms []*pb.Message) []JMsg {
	out := make([]JMsg, 0, len(ms))
	for _, m := range ms {
		out = append(out, jMsg(m))
	}
	return out
}

func jHS(hs *pb.HardState) JHS {
	if hs == nil || raft.IsEmptyHardState(hs) {
		return JHS{}
	}
	return JHS{Has: true, Term: hs.GetTerm(), Vote: hs.GetVote(), Commit: hs.GetCommit()}
}

func roleStr(s string) string {
	switch s {
	case "StateFollower":
		return "F"
	case "StateCandidate":
		return "C"
	case "StatePreCandidate":
		return "PC"
	case "StateLeader":
		return "L"
	}
	return s
}

func prState(s string) string { return strings.TrimPrefix(s, "State") }

func jReadStates(rs []raft.ReadState) []JReadState {
	out := make([]JReadState, 0, len(rs))
	for _, r := range rs {
		_, rid := pidOf(r.RequestCtx)
		out = append(out, JReadState{Index: r.Index, Rid: rid})
	}
	return out
}

func jNode(rn *raft.RawNode) JNode {
	if rn == nil {
		return JNode{Role: "F", UEnts: []JEntry{}, USnap: jSnap(nil), Cfg: jConf(nil), Prs: []JPr{}, Votes: []JVote{},
			Msgs: []JMsg{}, After: []JMsg{}, SOA: []JMsg{}, RoAcks: []JAck{}, RoUnc: []JRead{}, PendingReads: []JMsg{},
			ReadStates: []JReadState{}, PrevSS: JSS{Role: "F"}}
	}
	s, perr := safeState(rn)
	if perr != "" {
		dn := jNode(nil)
		dn.Role = "X:" + perr // observation itself hit an internal assertion
		return dn
	}
	n := JNode{
		Up: true, Term: s.Term, Vote: s.Vote, Role: roleStr(s.State), Lead: s.Lead, IsLearner: s.IsLearner,
		Commit: s.Commit, Applying: s.Applying, Applied: s.Applied,
		ApplyingSz: s.ApplyingEntsSize, ApplyPaused: s.ApplyingEntsPaused,
		UOff: s.UnstableOffset, UOffIP: s.UnstableOffsetInProgress,
		UEnts: jEntries(s.UnstableEntries), USnap: jSnap(s.UnstableSnapshot), USnapIP: s.UnstableSnapInProgress,
		First: s.FirstIndex, Last: s.LastIndex, LastTerm: s.LastTerm,
		Cfg: jConf(s.ConfState), Prs: []JPr{}, Votes: []JVote{},
		Msgs: jMsgs(s.Msgs), After: jMsgs(s.MsgsAfterAppend), SOA: jMsgs(s.StepsOnAdvance),
		Transferee: s.LeadTransferee, PendingConf: s.PendingConfIndex, UncommittedSz: s.UncommittedSize,
		RoAcks: []JAck{}, RoUnc: []JRead{}, RoConf: s.ReadOnlyConfirmed,
		PendingReads: jMsgs(s.PendingReadIndex), ReadStates: jReadStates(s.ReadStates),
		EE: s.ElectionElapsed, HE: s.HeartbeatElapsed, RTO: s.RandomizedElectionTimeout,
		PrevHS: jHS(s.PrevHardState),
		PrevSS: JSS{Has: true, Lead: s.PrevSoftState.Lead, Role: roleStr(s.PrevSoftState.RaftState.String())},
	}
	if s.UnstableSnapshot != nil {
		n.USnap.Has = true
	}
	for _, p := range s.Progress {
		jp := JPr{ID: p.ID, Match: p.Match, Next: p.Next, State: prState(p.State), PendingSnap: p.PendingSnapshot,
			Active: p.RecentActive, Paused: p.MsgAppFlowPaused, IsLearner: p.IsLearner, SentCommit: p.SentCommit,
			Inflights: []JInfl{}, Full: p.InflightsFull}
		for _, in := range p.Inflights {
			jp.Inflights = append(jp.Inflights, JInfl{Index: in.Index, Bytes: in.Bytes})
		}
		n.Prs = append(n.Prs, jp)
	}
	for id, v := range s.Votes {
		n.Votes = append(n.Votes, JVote{ID: id, V: v})
	}
	sort.Slice(n.Votes, func(i, j int) bool { return n.Votes[i].ID < n.Votes[j].ID })
	for id, v := range s.ReadOnlyAcks {
		n.RoAcks = append(n.RoAcks, JAck{ID: id, Pos: v})
	}
	sort.Slice(n.RoAcks, func(i, j int) bool { return n.RoAcks[i].ID < n.RoAcks[j].ID })
	for _, r := range s.ReadOnlyUnconfirmed {
		_, rid := pidOf(r.Ctx)
		n.RoUnc = append(n.RoUnc, JRead{From: r.From, Rid: rid, Index: r.Index})
	}
	return n
}

func jDisk(st *raft.MemoryStorage) JDisk {
	hs, _, _ := st.InitialState()
	snap, _ := st.Snapshot()
	fi, _ := st.FirstIndex()
	li, _ := st.LastIndex()
	d := JDisk{HS: jHS(hs), Snap: jSnap(snap), CIdx: fi - 1, Ents: []JEntry{}}
	if snap != nil && snap.GetMetadata() != nil {
		d.Snap.Conf = jConf(snap.GetMetadata().GetConfState())
	}
	if t, err := st.Term(fi - 1); err == nil {
		d.CTerm = t
	}
	if li >= fi {
		ents, err := st.Entries(fi, li+1, noLimitU)
		if err != nil {
			panic(fmt.Sprintf("harness: reading storage: %v", err))
		}
		d.Ents = jEntries(ents)
	}
	return d
}

func jReadyV(rd *raft.Ready) JReady {
	if rd == nil {
		return JReady{Ents: []JEntry{}, Snap: jSnap(nil), Committed: []JEntry{}, Msgs: []JMsg{}, ReadStates: []JReadState{}, SS: JSS{Role: "F"}}
	}
	r := JReady{Has: true, HS: jHS(rd.HardState), Ents: jEntries(rd.Entries), Snap: jSnap(rd.Snapshot),
		Committed: jEntries(rd.CommittedEntries), Msgs: jMsgs(rd.Messages), ReadStates: jReadStates(rd.ReadStates),
		MustSync: rd.MustSync, SS: JSS{Role: "F"}}
	if rd.SoftState != nil {
		r.SS = JSS{Has: true, Lead: rd.SoftState.Lead, Role: roleStr(rd.SoftState.RaftState.String())}
	}
	return r
}

func jReady(rd *raft.Ready) *JReady {
	r := jReadyV(rd)
	return &r
}

// safeState reads the node's state; an internal assertion firing inside the
// read-only accessors (possible only on an already corrupted log) is returned
// as a string instead of crashing the harness.
func safeState(rn *raft.RawNode) (st raft.VerifState, perr string) {
	defer func() {
		if r := recover(); r != nil {
			perr = fmt.Sprint(r)
		}
	}()
	return rn.VerifState(), ""
}

func safeIsLeader(rn *raft.RawNode) (l bool) {
	defer func() { _ = recover() }()
	return rn.BasicStatus().RaftState == raft.StateLeader
}
