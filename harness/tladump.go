package main

// Minimal reader for TLC's `-dump` files: a sequence of states, each a
// conjunction of `/\ var = value` lines. Values used by the pure engines are
// integers, strings, booleans, sets {..}, tuples <<..>> and records [a |-> ..].

import (
	"bufio"
	"fmt"
	"os"
	"strconv"
	"strings"
)

type TVal struct {
	Kind string // int | str | bool | set | seq | rec
	I    int
	S    string
	B    bool
	L    []TVal
	R    map[string]TVal
}

type tparser struct {
	s string
	p int
}

func (t *tparser) ws() {
	for t.p < len(t.s) && (t.s[t.p] == ' ' || t.s[t.p] == '\n' || t.s[t.p] == '\t') {
		t.p++
	}
}

func (t *tparser) val() TVal {
	t.ws()
	if t.p >= len(t.s) {
		panic("tla value: unexpected end")
	}
	c := t.s[t.p]
	switch {
	case c == '{':
		t.p++
		return TVal{Kind: "set", L: t.list('}', 1)}
	case strings.HasPrefix(t.s[t.p:], "<<"):
		t.p += 2
		return TVal{Kind: "seq", L: t.list('>', 2)}
	case c == '[':
		t.p++
		r := map[string]TVal{}
		for {
			t.ws()
			if t.s[t.p] == ']' {
				t.p++
				break
			}
			j := strings.Index(t.s[t.p:], "|->")
			name := strings.TrimSpace(t.s[t.p : t.p+j])
			t.p += j + 3
			r[name] = t.val()
			t.ws()
			if t.s[t.p] == ',' {
				t.p++
			}
		}
		return TVal{Kind: "rec", R: r}
	case c == '(':
		// function literal (k :> v @@ k2 :> v2)
		t.p++
		r := map[string]TVal{}
		for {
			t.ws()
			if t.s[t.p] == ')' {
				t.p++
				break
			}
			k := t.val()
			t.ws()
			t.p += 2 // :>
			v := t.val()
			key := k.S
			if k.Kind == "int" {
				key = strconv.Itoa(k.I)
			}
			r[key] = v
			t.ws()
			if strings.HasPrefix(t.s[t.p:], "@@") {
				t.p += 2
			}
		}
		return TVal{Kind: "fun", R: r}
	case c == '"':
		j := strings.IndexByte(t.s[t.p+1:], '"')
		v := t.s[t.p+1 : t.p+1+j]
		t.p += j + 2
		return TVal{Kind: "str", S: v}
	case strings.HasPrefix(t.s[t.p:], "TRUE"):
		t.p += 4
		return TVal{Kind: "bool", B: true}
	case strings.HasPrefix(t.s[t.p:], "FALSE"):
		t.p += 5
		return TVal{Kind: "bool", B: false}
	default:
		j := t.p
		if t.s[j] == '-' {
			j++
		}
		for j < len(t.s) && t.s[j] >= '0' && t.s[j] <= '9' {
			j++
		}
		n, err := strconv.Atoi(t.s[t.p:j])
		if err != nil {
			panic(fmt.Sprintf("tla value: cannot parse %q", t.s[t.p:min(len(t.s), t.p+40)]))
		}
		// interval a..b
		if strings.HasPrefix(t.s[j:], "..") {
			k := j + 2
			e := k
			for e < len(t.s) && t.s[e] >= '0' && t.s[e] <= '9' {
				e++
			}
			hi, _ := strconv.Atoi(t.s[k:e])
			t.p = e
			var l []TVal
			for x := n; x <= hi; x++ {
				l = append(l, TVal{Kind: "int", I: x})
			}
			return TVal{Kind: "set", L: l}
		}
		t.p = j
		return TVal{Kind: "int", I: n}
	}
}

func (t *tparser) list(end byte, endLen int) []TVal {
	var out []TVal
	for {
		t.ws()
		if t.s[t.p] == end {
			t.p += endLen
			return out
		}
		out = append(out, t.val())
		t.ws()
		if t.s[t.p] == ',' {
			t.p++
		}
	}
}

func parseTLA(s string) TVal { p := &tparser{s: s}; return p.val() }

// readDump calls f for every state of a TLC dump file.
func readDump(path string, f func(map[string]TVal)) error { return readDumpVars(path, nil, f) }

// readDumpVars is readDump restricted to the named variables (nil = all).
func readDumpVars(path string, only map[string]bool, f func(map[string]TVal)) error {
	fh, err := os.Open(path)
	if err != nil {
		return err
	}
	defer fh.Close()
	sc := bufio.NewScanner(fh)
	sc.Buffer(make([]byte, 1<<20), 1<<26)
	cur := map[string]string{}
	var last string
	flush := func() {
		if len(cur) == 0 {
			return
		}
		st := map[string]TVal{}
		for k, v := range cur {
			if only == nil || only[k] {
				st[k] = parseTLA(v)
			}
		}
		f(st)
		cur = map[string]string{}
		last = ""
	}
	for sc.Scan() {
		line := sc.Text()
		switch {
		case strings.HasPrefix(line, "State "), strings.HasPrefix(line, "STATE_"):
			flush()
		case strings.HasPrefix(line, "\\*"), strings.HasPrefix(line, "----"), strings.HasPrefix(line, "===="):
		case strings.HasPrefix(line, "/\\ "):
			j := strings.Index(line, " = ")
			last = strings.TrimSpace(line[3:j])
			cur[last] = line[j+3:]
		case strings.TrimSpace(line) == "":
		default:
			if last != "" {
				cur[last] += "\n" + line
			}
		}
	}
	flush()
	return sc.Err()
}

func (v TVal) ints() []int {
	out := make([]int, 0, len(v.L))
	for _, x := range v.L {
		out = append(out, x.I)
	}
	return out
}
