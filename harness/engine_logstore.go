package main

// C18 engine: replay every operation sequence TLC enumerated
// (spec/pure/MCLogStore.tla) on a real MemoryStorage + raftLog (through the
// VerifLog hook) and compare every query answer with the abstract log.

import (
	"encoding/json"
	"flag"
	"fmt"
	"os"
	"strings"

	"go.etcd.io/raft/v3"
	pb "go.etcd.io/raft/v3/raftpb"
	"google.golang.org/protobuf/proto"
)

type absEnt struct{ term, cls int }
type absLog struct {
	bidx, bterm int
	ents        []absEnt
}

func absLogOf(v TVal) absLog {
	l := absLog{bidx: v.R["bidx"].I, bterm: v.R["bterm"].I}
	for _, e := range v.R["ents"].L {
		l.ents = append(l.ents, absEnt{e.R["term"].I, e.R["sz"].I})
	}
	return l
}

var clsData = map[int][]byte{1: nil, 2: []byte("0123456789")}

func mkEntry(idx, term, cls int) *pb.Entry {
	return &pb.Entry{Index: new(uint64(idx)), Term: new(uint64(term)), Data: clsData[cls]}
}

func clsSize(cls, idx, term int) int { return proto.Size(mkEntry(idx, term, cls)) }

func (l absLog) last() int { return l.bidx + len(l.ents) }

// declarative answers (LogStore.tla: ATerm, ARange)
func (l absLog) termAt(i int) (int, string) {
	switch {
	case i < l.bidx:
		return 0, "compacted"
	case i > l.last():
		return 0, "unavailable"
	case i == l.bidx:
		return l.bterm, ""
	}
	return l.ents[i-l.bidx-1].term, ""
}

func (l absLog) rng(lo, hi int, max uint64) []absIdxEnt {
	var out []absIdxEnt
	var size uint64
	for i := lo; i < hi; i++ {
		e := l.ents[i-l.bidx-1]
		sz := uint64(clsSize(e.cls, i, e.term))
		if len(out) > 0 && size+sz > max {
			break
		}
		size += sz
		out = append(out, absIdxEnt{i, e.term, e.cls})
	}
	return out
}

type absIdxEnt struct{ idx, term, cls int }

func sameEnts(got []*pb.Entry, want []absIdxEnt) bool {
	if len(got) != len(want) {
		return false
	}
	for k, e := range got {
		w := want[k]
		if int(e.GetIndex()) != w.idx || int(e.GetTerm()) != w.term || string(e.GetData()) != string(clsData[w.cls]) {
			return false
		}
	}
	return true
}

func errName(err error) string {
	switch err {
	case nil:
		return ""
	case raft.ErrCompacted:
		return "compacted"
	case raft.ErrUnavailable:
		return "unavailable"
	}
	return err.Error()
}

type lsWrite struct {
	ents []*pb.Entry
	snap *pb.Snapshot
}

var sizeLimits = []uint64{0, 4, 8, 16, 20, 24, 36, ^uint64(0)}

// replayLogStore runs one operation sequence; returns "" or a description of the first disagreement.
func replayLogStore(ops []TVal, view, stor absLog) (res string) {
	defer func() {
		if r := recover(); r != nil {
			res = fmt.Sprintf("panic: %v", r)
		}
	}()
	ms := raft.NewMemoryStorage()
	cs := &pb.ConfState{Voters: []uint64{1}}
	_ = ms.ApplySnapshot(&pb.Snapshot{Metadata: &pb.SnapshotMetadata{Index: new(uint64(1)), Term: new(uint64(1)), ConfState: cs}})
	_ = ms.Append([]*pb.Entry{mkEntry(2, 1, 1), mkEntry(3, 1, 2)})
	vl := raft.VerifNewLog(ms, ^uint64(0))
	var writes []lsWrite
	applied := uint64(1)
	for _, o := range ops {
		i, t, n, sz := o.R["i"].I, o.R["t"].I, o.R["n"].I, o.R["sz"].I
		switch o.R["op"].S {
		case "append":
			vl.Append(mkEntry(i, t, sz))
		case "fapp":
			var ents []*pb.Entry
			for k := 0; k < n; k++ {
				ents = append(ents, mkEntry(i+k, t, sz))
			}
			if _, ok := vl.MaybeAppend(uint64(t), uint64(i-1), uint64(o.R["pt"].I), uint64(o.R["c"].I), ents...); !ok {
				return "maybeAppend rejected an append whose previous entry matches"
			}
		case "commit":
			vl.CommitTo(uint64(i))
		case "accept":
			w := lsWrite{ents: vl.NextUnstableEnts(), snap: vl.NextUnstableSnapshot()}
			vl.AcceptUnstable()
			writes = append(writes, w)
		case "persist":
			w := writes[0]
			writes = writes[1:]
			if w.snap != nil {
				if err := ms.ApplySnapshot(w.snap); err != nil && err != raft.ErrSnapOutOfDate {
					return "ApplySnapshot: " + err.Error()
				}
			}
			if err := ms.Append(w.ents); err != nil {
				return "Append: " + err.Error()
			}
		case "ack":
			if n == 1 && i != 0 { // same epoch: the acknowledgement is not filtered by the term guard
				vl.StableTo(uint64(i), uint64(t))
			}
			if sz != 0 {
				vl.StableSnapTo(uint64(sz))
				if uint64(sz) > applied {
					applied = uint64(sz)
					vl.AppliedTo(applied, 0)
				}
			}
		case "restore":
			vl.Restore(&pb.Snapshot{Metadata: &pb.SnapshotMetadata{Index: new(uint64(i)), Term: new(uint64(t)), ConfState: cs}})
		case "applied":
			applied = uint64(i)
			vl.AppliedTo(applied, 0)
		case "snap":
			if _, err := ms.CreateSnapshot(uint64(i), cs, nil); err != nil {
				return "CreateSnapshot: " + err.Error()
			}
		case "compact":
			if err := ms.Compact(uint64(i)); err != nil {
				return "Compact: " + err.Error()
			}
		}
	}
	// --- the raftLog view against the abstract log ---
	if got := int(vl.FirstIndex()); got != view.bidx+1 {
		return fmt.Sprintf("view.firstIndex=%d want %d", got, view.bidx+1)
	}
	if got := int(vl.LastIndex()); got != view.last() {
		return fmt.Sprintf("view.lastIndex=%d want %d", got, view.last())
	}
	for i := 0; i <= view.last()+2; i++ {
		wt, we := view.termAt(i)
		gt, ge := vl.Term(uint64(i))
		if errName(ge) != we || (we == "" && int(gt) != wt) {
			return fmt.Sprintf("view.term(%d)=(%d,%q) want (%d,%q)", i, gt, errName(ge), wt, we)
		}
	}
	for lo := view.bidx + 1; lo <= view.last()+1; lo++ {
		for hi := lo; hi <= view.last()+1; hi++ {
			for _, max := range sizeLimits {
				got, err := vl.Slice(uint64(lo), uint64(hi), max)
				if err != nil {
					return fmt.Sprintf("view.slice(%d,%d,%d) error %v", lo, hi, max, err)
				}
				if want := view.rng(lo, hi, max); !sameEnts(got, want) {
					return fmt.Sprintf("view.slice(%d,%d,%d)=%s want %v", lo, hi, max, descEnts(got), want)
				}
			}
		}
	}
	if view.bidx >= 1 {
		if _, err := vl.Slice(uint64(view.bidx), uint64(view.bidx+1), 100); errName(err) != "compacted" && view.bidx+1 <= view.last()+1 {
			if view.bidx+1 <= view.last()+1 && view.bidx >= 1 && len(view.ents) > 0 {
				return fmt.Sprintf("view.slice below first index: error %q want compacted", errName(err))
			}
		}
	}
	// --- the storage alone against the abstract storage ---
	fi, _ := ms.FirstIndex()
	li, _ := ms.LastIndex()
	if int(fi) != stor.bidx+1 || int(li) != stor.last() {
		return fmt.Sprintf("storage first/last=%d/%d want %d/%d", fi, li, stor.bidx+1, stor.last())
	}
	for i := 0; i <= stor.last()+2; i++ {
		wt, we := stor.termAt(i)
		gt, ge := ms.Term(uint64(i))
		if errName(ge) != we || (we == "" && int(gt) != wt) {
			return fmt.Sprintf("storage.Term(%d)=(%d,%q) want (%d,%q)", i, gt, errName(ge), wt, we)
		}
	}
	for lo := 1; lo <= stor.last(); lo++ {
		for hi := lo + 1; hi <= stor.last()+1; hi++ {
			for _, max := range sizeLimits {
				got, err := ms.Entries(uint64(lo), uint64(hi), max)
				if lo <= stor.bidx {
					if errName(err) != "compacted" {
						return fmt.Sprintf("storage.Entries(%d,%d) error %q want compacted", lo, hi, errName(err))
					}
					continue
				}
				if err != nil {
					return fmt.Sprintf("storage.Entries(%d,%d,%d) error %v", lo, hi, max, err)
				}
				if want := stor.rng(lo, hi, max); !sameEnts(got, want) {
					return fmt.Sprintf("storage.Entries(%d,%d,%d)=%s want %v", lo, hi, max, descEnts(got), want)
				}
			}
		}
	}
	return ""
}

func descEnts(es []*pb.Entry) string {
	var b strings.Builder
	for _, e := range es {
		fmt.Fprintf(&b, "[%d@%d %dB]", e.GetIndex(), e.GetTerm(), len(e.GetData()))
	}
	return b.String()
}

func descOps(ops []TVal) string {
	var b strings.Builder
	for _, o := range ops {
		fmt.Fprintf(&b, "%s(i=%d t=%d n=%d sz=%d) ", o.R["op"].S, o.R["i"].I, o.R["t"].I, o.R["n"].I, o.R["sz"].I)
	}
	return b.String()
}

func cmdLogStore(args []string) {
	fs := flag.NewFlagSet("logstore", flag.ExitOnError)
	dump := fs.String("dump", "", "TLC dump file of MCLogStore")
	_ = fs.Int64("seed", 1, "unused")
	_ = fs.Parse(args)
	sum := PureSummary{Kinds: map[string]int{}}
	err := readDumpVars(*dump, map[string]bool{"ops": true, "view": true, "stor": true}, func(st map[string]TVal) {
		ops := st["ops"].L
		view, stor := absLogOf(st["view"]), absLogOf(st["stor"])
		sum.States++
		sum.Cases++
		if len(ops) > 0 {
			sum.Kinds[ops[len(ops)-1].R["op"].S]++
		}
		why := replayLogStore(ops, view, stor)
		c := map[string]interface{}{"ops": descOps(ops), "why": why}
		if why != "" {
			sum.Mismatches++
			if len(sum.Bad) < 20 {
				sum.Bad = append(sum.Bad, c)
			}
		} else if sum.Cases%250000 == 77 && len(sum.Samples) < 6 {
			sum.Samples = append(sum.Samples, c)
		}
	})
	if err != nil {
		fmt.Fprintln(os.Stderr, err)
		os.Exit(2)
	}
	b, _ := json.Marshal(sum)
	fmt.Println(string(b))
}
