package main

import (
	"bufio"
	"bytes"
	"encoding/json"
	"flag"
	"fmt"
	"io"
	"math/rand"
	"os"
	"path/filepath"
	"sort"
	"strings"

	"go.etcd.io/raft/v3"
)

type RunSummary struct {
	Traces     int            `json:"traces"`
	Events     int            `json:"events"`
	Panics     []string       `json:"panics"`
	DetDiffs   int            `json:"det_diffs"`
	Acts       map[string]int `json:"acts"`
	Leaders    int            `json:"traces_with_leader"`
	Commits    int            `json:"traces_with_commit"`
	Profiles   map[string]int `json:"profiles"`
	Kinds      map[string]int `json:"kinds"`
	OutFiles   []string       `json:"out_files"`
	SchedFiles []string       `json:"sched_files"`
}

func main() {
	if len(os.Args) < 2 {
		fmt.Fprintln(os.Stderr, "usage: verifharness random|replay|quorum|confchange|logstore ...")
		os.Exit(2)
	}
	raft.SetLogger(discardLogger{})
	switch os.Args[1] {
	case "random":
		cmdRandom(os.Args[2:])
	case "replay":
		cmdReplay(os.Args[2:])
	case "quorum":
		cmdQuorum(os.Args[2:])
	case "confchange":
		cmdConfChange(os.Args[2:])
	case "logstore":
		cmdLogStore(os.Args[2:])
	case "simsched":
		cmdSimSched(os.Args[2:])
	default:
		fmt.Fprintln(os.Stderr, "unknown command", os.Args[1])
		os.Exit(2)
	}
}

type lineBuf struct {
	buf   bytes.Buffer
	lines []string
}

func (l *lineBuf) Write(p []byte) (int, error) { return l.buf.Write(p) }
func (l *lineBuf) split() []string {
	s := strings.TrimRight(l.buf.String(), "\n")
	if s == "" {
		return nil
	}
	return strings.Split(s, "\n")
}

// runOne executes one random trace and returns its event lines, the schedule
// and the number of determinism differences found by re-executing it.
var scenarioWish = map[string]Wish{
	"stale-leader":         {MinNodes: 3, Async: 60, Tiny: 10, Spare: 0},
	"lagging-snapshot":     {MinNodes: 3, Async: -1, Tiny: 20, Spare: 20},
	"conf-lagging-applier": {MinNodes: 3, MaxNodes: 3, Async: 60, Tiny: 30, Spare: 100, NoLearner: true},
	"disk-stall":           {MinNodes: 3, MaxNodes: 3, Async: 100, Tiny: 50, Spare: 0, OnlySizeLimits: true},
	"vote-race":            {MinNodes: 3, Async: 50, Tiny: 0, Spare: 0},
	"pagination":           {MinNodes: 3, MaxNodes: 3, Async: 40, Tiny: 100, Spare: 0, OnlySizeLimits: true, NoLearner: true},
	"transfer":             {MinNodes: 3, Async: -1, Tiny: 0, Spare: 0, NoLearner: true},
	"reads":                {MinNodes: 2, Async: 30, Tiny: 0, Spare: 0},
	"crash-points":         {MinNodes: 3, MaxNodes: 3, Async: 50, Tiny: 0, Spare: 0},
	"flow":                 {MinNodes: 2, MaxNodes: 3, Async: 30, Tiny: 100, Spare: 0},
	"big-joint":            {MinNodes: 8, MaxNodes: 9, Async: 30, Tiny: 0, Spare: 0, Learners: 3},
	"snapshot-race":        {MinNodes: 3, MaxNodes: 4, Async: 100, Tiny: 10, Spare: 0, NoLearner: true},
	"ack-race":             {MinNodes: 5, MaxNodes: 5, Async: 100, Tiny: 0, Spare: 0, NoLearner: true},
}

func runOne(seed int64, prof Profile, steps, stabilize, tr int, sum *RunSummary, scen string) ([]string, *Cluster) {
	r := rand.New(rand.NewSource(seed))
	wish := noWish
	var sc *scenario
	for i := range scenarios {
		if scenarios[i].name == scen {
			sc = &scenarios[i]
			wish = scenarioWish[scen]
		}
	}
	cl := GenCluster(r, prof, seed, wish)
	if sc != nil {
		cl.Profile = "scenario:" + scen
	}
	lb := &lineBuf{}
	c := NewCluster(cl, lb, tr)
	d := NewDriver(c, r, prof)
	c.Init()
	if sc != nil {
		sc.run(d)
		d.unfreeze()
		d.heal()
	} else {
		for i := 0; i < steps; i++ {
			if !d.Step() {
				break
			}
		}
	}
	if stabilize > 0 {
		d.Stabilize(stabilize)
	}
	lines := lb.split()

	// C19: re-execute the recorded schedule on a fresh cluster (fresh RawNodes,
	// fresh storages) with the same election-timeout draws and compare every
	// event (full Ready contents and full node/disk state) byte for byte.
	c2 := NewCluster(cl, nil, tr)
	c2.Cmp = lines
	k := 0
	c2.rtoDraw = func(id uint64, et int) int {
		if k < len(c.RTOLog) {
			k++
			return c.RTOLog[k-1]
		}
		return et
	}
	c2.emit(&Event{Act: "Init", Cl: clampCl(c2.Cl)}, nil)
	for _, s := range c.Sched {
		if s.Act == "Stabilized" {
			c2.Quiet = false
		} else if stabilize > 0 && !c2.Quiet && len(c2.Sched) >= c.quietFrom && c.quietFrom > 0 {
			c2.Quiet = true
		}
		c2.Do(s)
	}
	diffs := c2.CmpDiffs
	if c2.seq != len(lines) {
		diffs++
	}
	if diffs > 0 && os.Getenv("VERIF_DEBUG") != "" {
		fmt.Fprintf(os.Stderr, "det: tr=%d diffs=%d seq=%d lines=%d\n", tr, c2.CmpDiffs, c2.seq, len(lines))
	}
	sum.DetDiffs += diffs
	c.emit(&Event{Act: "DetCheck", A: JArgs{K: uint64(diffs)}}, nil)
	c.LastEv.Det = diffs == 0
	b, _ := json.Marshal(c.LastEv)
	lines = append(lines, string(b))
	return lines, c
}

func cmdRandom(args []string) {
	fs := flag.NewFlagSet("random", flag.ExitOnError)
	seed := fs.Int64("seed", 1, "seed")
	runs := fs.Int("runs", 10, "number of traces")
	steps := fs.Int("steps", 150, "steps per trace")
	profile := fs.String("profile", "mix", "profile name or 'mix'")
	out := fs.String("out", "traces.ndjson", "output ndjson (all traces concatenated)")
	chunk := fs.Int("chunk", 0, "if >0, start a new output file every <chunk> traces (out.N)")
	stabilize := fs.Int("stabilize", 0, "append a fault-free suffix of this many rounds")
	schedDir := fs.String("sched", "", "directory to write schedules of traces with panics")
	only := fs.Int("only", 0, "run only this trace number (same derived seed as in the full run)")
	schedOut := fs.String("schedout", "", "with -only: write the executed schedule to this file")
	_ = fs.Parse(args)

	names := []string{"base", "crash", "election", "snap", "conf", "read", "flow"}
	sum := RunSummary{Acts: map[string]int{}, Profiles: map[string]int{}, Panics: []string{}, Kinds: map[string]int{}}
	var w *bufio.Writer
	var f *os.File
	open := func(i int) {
		if w != nil {
			w.Flush()
			f.Close()
		}
		name := *out
		if *chunk > 0 {
			name = fmt.Sprintf("%s.%d", *out, i / *chunk)
		}
		var err error
		f, err = os.Create(name)
		if err != nil {
			panic(err)
		}
		w = bufio.NewWriterSize(f, 1<<20)
		sum.OutFiles = append(sum.OutFiles, name)
	}
	for i := 0; i < *runs; i++ {
		if *only > 0 && i != *only-1 {
			continue
		}
		if w == nil || (*chunk > 0 && i%*chunk == 0) {
			open(i)
		}
		pn := *profile
		scen := ""
		if pn == "mix" {
			// alternate plain weighted-random profiles and scenario drivers
			if i%4 == 0 {
				pn = names[(i/4)%len(names)]
			} else {
				scen = scenarios[(i-i/4-1)%len(scenarios)].name
				pn = "base"
			}
		} else if strings.HasPrefix(pn, "scenario:") {
			scen = strings.TrimPrefix(pn, "scenario:")
			pn = "base"
		}
		prof, ok := profiles[pn]
		if !ok {
			fmt.Fprintln(os.Stderr, "unknown profile", pn)
			os.Exit(2)
		}
		s := *seed*1000003 + int64(i)
		lines, c := runOne(s, prof, *steps, *stabilize, i+1, &sum, scen)
		if scen != "" {
			pn = "scenario:" + scen
		}
		for _, l := range lines {
			w.WriteString(l)
			w.WriteByte('\n')
		}
		sum.Traces++
		sum.Events += len(lines)
		sum.Profiles[pn]++
		sum.Panics = append(sum.Panics, c.Panics...)
		for _, st := range c.Sched {
			sum.Acts[st.Act]++
		}
		for k, v := range c.Kinds {
			sum.Kinds[k] += v
		}
		if *only > 0 && *schedOut != "" {
			writeSched(*schedOut, c)
		}
		if len(c.Panics) > 0 && *schedDir != "" {
			name := fmt.Sprintf("%s/panic_%d.json", *schedDir, s)
			writeSched(name, c)
			sum.SchedFiles = append(sum.SchedFiles, name)
		}
	}
	w.Flush()
	f.Close()
	b, _ := json.Marshal(sum)
	fmt.Println(string(b))
}

type SchedFile struct {
	Cluster JCluster `json:"cluster"`
	RTO     []int    `json:"rto"`
	Steps   []Step   `json:"steps"`
}

func writeSched(name string, c *Cluster) {
	sf := SchedFile{Cluster: c.Cl, Steps: c.Sched, RTO: c.RTOLog}
	b, _ := json.MarshalIndent(sf, "", " ")
	_ = os.WriteFile(name, b, 0o644)
}

func cmdReplay(args []string) {
	fs := flag.NewFlagSet("replay", flag.ExitOnError)
	sched := fs.String("sched", "", "schedule json")
	scheddir := fs.String("scheddir", "", "directory of schedule json files, all replayed into one output (trace ids 1..n)")
	out := fs.String("out", "replay.ndjson", "output ndjson")
	tr := fs.Int("tr", 1, "trace id")
	stabilize := fs.Int("stabilize", 0, "append fault-free rounds")
	settle := fs.Int("settle", 0, "append this many calm (fault-free, logged) driver steps so that latent damage surfaces")
	_ = fs.Parse(args)
	var files []string
	if *scheddir != "" {
		files, _ = filepath.Glob(filepath.Join(*scheddir, "*.json"))
		sort.Strings(files)
	} else {
		files = []string{*sched}
	}
	f, _ := os.Create(*out)
	w := bufio.NewWriter(f)
	events, skipped, traces := 0, 0, 0
	panics := []string{}
	skippedIn := []string{}
	for k, file := range files {
		b, err := os.ReadFile(file)
		if err != nil {
			fmt.Fprintln(os.Stderr, err)
			os.Exit(2)
		}
		var sf SchedFile
		if err := json.Unmarshal(b, &sf); err != nil {
			fmt.Fprintln(os.Stderr, file, err)
			os.Exit(2)
		}
		e, sk, ps := replayOne(sf, w, *tr+k, *settle, *stabilize)
		events += e
		skipped += sk
		traces++
		panics = append(panics, ps...)
		if sk > 0 {
			skippedIn = append(skippedIn, filepath.Base(file))
		}
	}
	w.Flush()
	f.Close()
	sum := map[string]interface{}{"events": events, "skipped": skipped, "panics": panics, "traces": traces, "skipped_in": skippedIn}
	jb, _ := json.Marshal(sum)
	fmt.Println(string(jb))
}

func replayOne(sf SchedFile, w io.Writer, tr, settle, stabilize int) (int, int, []string) {
	c := NewCluster(sf.Cluster, w, tr)
	k := 0
	c.rtoDraw = func(id uint64, et int) int {
		if k < len(sf.RTO) {
			k++
			return sf.RTO[k-1]
		}
		return et + int(id-1)%et
	}
	hasBoot := false
	for _, s := range sf.Steps {
		if s.Act == "Boot" {
			hasBoot = true
		}
	}
	if hasBoot {
		c.activate()
		c.emit(&Event{Act: "Init", Cl: clampCl(c.Cl)}, nil)
	} else {
		c.Init() // hand-written schedules: boot all initial members
	}
	skipped := 0
	for _, s := range sf.Steps {
		if s.RTO > 0 {
			if n := c.up(s.Node); n != nil {
				n.RN.VerifSetRandomizedElectionTimeout(s.RTO)
			}
		}
		if !c.Do(s) {
			skipped++
			if os.Getenv("VERIF_DEBUG") != "" {
				fmt.Fprintf(os.Stderr, "skipped step %+v\n", s)
			}
		}
	}
	if settle > 0 {
		d := NewDriver(c, rand.New(rand.NewSource(1)), profiles["base"])
		c.rtoDraw = func(id uint64, et int) int { return et + int(id-1)%et }
		p := calm
		p.Restart = 10
		d.with(p, settle)
	}
	if stabilize > 0 {
		d := NewDriver(c, rand.New(rand.NewSource(1)), profiles["base"])
		d.Stabilize(stabilize)
	}
	return c.Events, skipped, c.Panics
}
