package main

// C12 engine: evaluate the real quorum package on every state TLC enumerated
// (spec/pure/MCQuorum.tla) and compare with the declarative value.

import (
	"encoding/json"
	"flag"
	"fmt"
	"math"
	"os"

	"go.etcd.io/raft/v3/quorum"
)

type ackIdx map[uint64]quorum.Index

func (a ackIdx) AckedIndex(id uint64) (quorum.Index, bool) { v, ok := a[id]; return v, ok }

type PureSummary struct {
	States     int            `json:"states"` // states read from the TLC dump
	Cases      int            `json:"cases"`
	Mismatches int            `json:"mismatches"`
	Kinds      map[string]int `json:"kinds"`
	Bad        []interface{}  `json:"bad"`
	Samples    []interface{}  `json:"samples"`
}

func cmdQuorum(args []string) {
	fs := flag.NewFlagSet("quorum", flag.ExitOnError)
	dump := fs.String("dump", "", "TLC dump file of MCQuorum")
	_ = fs.Int64("seed", 1, "unused")
	_ = fs.Parse(args)
	sum := PureSummary{Kinds: map[string]int{}}
	err := readDump(*dump, func(st map[string]TVal) {
		kind := st["kind"].S
		c0, c1, vec := st["c0"].ints(), st["c1"].ints(), st["vec"].ints()
		mk := func(ids []int) quorum.MajorityConfig {
			m := quorum.MajorityConfig{}
			for _, id := range ids {
				m[uint64(id)] = struct{}{}
			}
			return m
		}
		jc := quorum.JointConfig{mk(c0), mk(c1)}
		var got, want interface{}
		ok := true
		note := ""
		switch kind {
		case "commit":
			acks := ackIdx{}
			for i, v := range vec {
				if v >= 0 {
					acks[uint64(i+1)] = quorum.Index(v)
				}
			}
			g := uint64(jc.CommittedIndex(acks))
			w := uint64(st["want"].I)
			if st["want"].I == 1<<30 {
				w = math.MaxUint64
			}
			got, want = g, w
			ok = g == w
			// the single-set API must agree when there is no outgoing set
			if len(c1) == 0 {
				if g1 := uint64(mk(c0).CommittedIndex(acks)); g1 != w {
					ok = false
					note = fmt.Sprintf("MajorityConfig.CommittedIndex=%d", g1)
				}
			}
		case "vote":
			votes := map[uint64]bool{}
			for i, v := range vec {
				if v >= 0 {
					votes[uint64(i+1)] = v == 1
				}
			}
			names := map[quorum.VoteResult]string{quorum.VoteWon: "Won", quorum.VoteLost: "Lost", quorum.VotePending: "Pending"}
			g := names[jc.VoteResult(votes)]
			got, want = g, st["want"].S
			ok = g == st["want"].S
			if len(c1) == 0 {
				if g1 := names[mk(c0).VoteResult(votes)]; g1 != st["want"].S {
					ok = false
					note = "MajorityConfig.VoteResult=" + g1
				}
			}
		}
		sum.Cases++
		sum.States++
		sum.Kinds[kind]++
		c := map[string]interface{}{"kind": kind, "c0": c0, "c1": c1, "vec": vec, "want": want, "got": got, "note": note}
		if !ok {
			sum.Mismatches++
			if len(sum.Bad) < 20 {
				sum.Bad = append(sum.Bad, c)
			}
		} else if sum.Cases%40000 == 1 && len(sum.Samples) < 6 {
			sum.Samples = append(sum.Samples, c)
		}
	})
	if err != nil {
		fmt.Fprintln(os.Stderr, err)
		os.Exit(2)
	}
	b, _ := json.Marshal(sum)
	fmt.Println(string(b))
}
