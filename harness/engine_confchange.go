package main

// C13 engine: apply the real confchange.Changer / confchange.Restore to every
// edge (configuration, operation) TLC enumerated in spec/pure/MCConfChange.tla.
// The verdict is taken from the property's own invariants evaluated on the REAL
// result; a difference from the abstract algebra's result is reported as drift.

import (
	"encoding/json"
	"flag"
	"fmt"
	"os"
	"reflect"
	"sort"

	"go.etcd.io/raft/v3/confchange"
	"go.etcd.io/raft/v3/quorum"
	pb "go.etcd.io/raft/v3/raftpb"
	"go.etcd.io/raft/v3/tracker"
)

type absCfg struct {
	Voters, Outgoing, Learners, LearnersNext []int
	AutoLeave                                bool
}

func absOf(v TVal) absCfg {
	return absCfg{Voters: v.R["voters"].ints(), Outgoing: v.R["outgoing"].ints(), Learners: v.R["learners"].ints(),
		LearnersNext: v.R["learnersNext"].ints(), AutoLeave: v.R["autoLeave"].B}
}

func setOf(ids []int) map[uint64]struct{} {
	if len(ids) == 0 {
		return nil
	}
	m := map[uint64]struct{}{}
	for _, id := range ids {
		m[uint64(id)] = struct{}{}
	}
	return m
}

// trackerOf builds a ProgressTracker holding the abstract configuration.
func trackerOf(a absCfg) tracker.ProgressTracker {
	trk := tracker.MakeProgressTracker(4, 0)
	for _, id := range a.Voters {
		trk.Voters[0][uint64(id)] = struct{}{}
	}
	if len(a.Outgoing) > 0 {
		trk.Voters[1] = quorum.MajorityConfig(setOf(a.Outgoing))
	}
	trk.Learners = setOf(a.Learners)
	trk.LearnersNext = setOf(a.LearnersNext)
	trk.AutoLeave = a.AutoLeave
	isL := map[int]bool{}
	for _, id := range a.Learners {
		isL[id] = true
	}
	for _, set := range [][]int{a.Voters, a.Outgoing, a.Learners, a.LearnersNext} {
		for _, id := range set {
			trk.Progress[uint64(id)] = &tracker.Progress{Match: 0, Next: 1, IsLearner: isL[id], Inflights: tracker.NewInflights(4, 0)}
		}
	}
	return trk
}

func sortedIDs(m map[uint64]struct{}) []int {
	out := []int{}
	for id := range m {
		out = append(out, int(id))
	}
	sort.Ints(out)
	return out
}

func absFrom(cfg tracker.Config) absCfg {
	return absCfg{Voters: sortedIDs(cfg.Voters[0]), Outgoing: sortedIDs(cfg.Voters[1]), Learners: sortedIDs(cfg.Learners),
		LearnersNext: sortedIDs(cfg.LearnersNext), AutoLeave: cfg.AutoLeave}
}

func norm(a absCfg) absCfg {
	f := func(x []int) []int {
		if x == nil {
			return []int{}
		}
		return x
	}
	return absCfg{f(a.Voters), f(a.Outgoing), f(a.Learners), f(a.LearnersNext), a.AutoLeave}
}

func inSet(x []int, id int) bool {
	for _, y := range x {
		if y == id {
			return true
		}
	}
	return false
}

// realInvariants evaluates the statement of C13 on a real result.
func realInvariants(a absCfg, prs tracker.ProgressMap) string {
	for _, id := range a.Learners {
		if inSet(a.Voters, id) || inSet(a.Outgoing, id) {
			return fmt.Sprintf("%d is voter and learner", id)
		}
	}
	for _, id := range a.LearnersNext {
		if !inSet(a.Outgoing, id) {
			return fmt.Sprintf("staged learner %d is not an outgoing voter", id)
		}
		if inSet(a.Learners, id) {
			return fmt.Sprintf("%d is learner and staged learner", id)
		}
	}
	members := map[int]bool{}
	for _, set := range [][]int{a.Voters, a.Outgoing, a.Learners, a.LearnersNext} {
		for _, id := range set {
			members[id] = true
		}
	}
	if len(prs) != len(members) {
		return fmt.Sprintf("progress records %d != members %d", len(prs), len(members))
	}
	for id := range members {
		pr, ok := prs[uint64(id)]
		if !ok {
			return fmt.Sprintf("member %d has no progress", id)
		}
		if pr.IsLearner != inSet(a.Learners, id) {
			return fmt.Sprintf("learner flag of %d inconsistent", id)
		}
	}
	if len(a.Voters) == 0 {
		return "no voter remains"
	}
	if len(a.Outgoing) == 0 && (len(a.LearnersNext) > 0 || a.AutoLeave) {
		return "LearnersNext/AutoLeave outside a joint config"
	}
	return ""
}

func symdiff(a, b []int) int {
	n := 0
	for _, x := range a {
		if !inSet(b, x) {
			n++
		}
	}
	for _, x := range b {
		if !inSet(a, x) {
			n++
		}
	}
	return n
}

func cmdConfChange(args []string) {
	fs := flag.NewFlagSet("confchange", flag.ExitOnError)
	dump := fs.String("dump", "", "TLC dump file of MCConfChange")
	_ = fs.Int64("seed", 1, "unused")
	_ = fs.Parse(args)
	sum := PureSummary{Kinds: map[string]int{}}
	drift := 0
	err := readDump(*dump, func(st map[string]TVal) {
		from, cur, ok := absOf(st["from"]), absOf(st["cur"]), st["ok"].B
		opv := st["op"]
		sum.States++
		if opv.R["trans"].S == "none" {
			return // a configuration state, not an edge
		}
		cc := &pb.ConfChangeV2{}
		switch opv.R["trans"].S {
		case "auto":
			cc.Transition = pb.ConfChangeTransitionAuto.Enum()
		case "implicit":
			cc.Transition = pb.ConfChangeTransitionJointImplicit.Enum()
		case "explicit":
			cc.Transition = pb.ConfChangeTransitionJointExplicit.Enum()
		}
		opDesc := opv.R["trans"].S + ":"
		for _, ch := range opv.R["changes"].L {
			t := map[string]pb.ConfChangeType{"v": pb.ConfChangeAddNode, "l": pb.ConfChangeAddLearnerNode, "r": pb.ConfChangeRemoveNode, "u": pb.ConfChangeUpdateNode}[ch.R["t"].S]
			cc.Changes = append(cc.Changes, &pb.ConfChangeSingle{Type: t.Enum(), NodeId: new(uint64(ch.R["id"].I))})
			opDesc += fmt.Sprintf(" %s%d", ch.R["t"].S, ch.R["id"].I)
		}
		trk := trackerOf(from)
		before := absFrom(trk.Config)
		beforePrs := map[uint64]tracker.Progress{}
		for id, pr := range trk.Progress {
			beforePrs[id] = *pr
		}
		ch := confchange.Changer{Tracker: trk, LastIndex: 5}
		var cfg tracker.Config
		var prs tracker.ProgressMap
		var err error
		kind := "simple"
		if cc.LeaveJoint() {
			kind = "leave"
			cfg, prs, err = ch.LeaveJoint()
		} else if autoLeave, okj := cc.EnterJoint(); okj {
			kind = "enter"
			cfg, prs, err = ch.EnterJoint(autoLeave, cc.Changes...)
		} else {
			cfg, prs, err = ch.Simple(cc.Changes...)
		}
		sum.Cases++
		sum.Kinds[kind]++
		bad := ""
		// rejected changes leave the input untouched
		after := absFrom(trk.Config)
		if !reflect.DeepEqual(norm(before), norm(after)) {
			bad = "input configuration modified"
		}
		for id, pr := range trk.Progress {
			if b, okb := beforePrs[id]; !okb || b.IsLearner != pr.IsLearner {
				bad = "input progress modified"
			}
		}
		if len(trk.Progress) != len(beforePrs) {
			bad = "input progress modified"
		}
		if err == nil && bad == "" {
			got := norm(absFrom(cfg))
			if len(from.Voters) > 0 || len(got.Voters) > 0 || len(prs) > 0 {
				bad = realInvariants(got, prs)
			}
			if bad == "" && kind == "simple" && symdiff(from.Voters, got.Voters) > 1 {
				bad = "simple change altered more than one voter"
			}
			if bad == "" && len(got.Voters) > 0 {
				// ConfState round trip
				rt := tracker.MakeProgressTracker(4, 0)
				rt.Config, rt.Progress = cfg, prs
				cs := rt.ConfState()
				rcfg, rprs, rerr := confchange.Restore(confchange.Changer{Tracker: tracker.MakeProgressTracker(4, 0), LastIndex: 5}, cs)
				if rerr != nil {
					bad = "restore of ConfState failed: " + rerr.Error()
				} else if !reflect.DeepEqual(norm(absFrom(rcfg)), got) {
					bad = fmt.Sprintf("restore not equivalent: %+v", norm(absFrom(rcfg)))
				} else if len(rprs) != len(prs) {
					bad = "restore: progress set differs"
				} else {
					for id, pr := range prs {
						if rp, okr := rprs[id]; !okr || rp.IsLearner != pr.IsLearner {
							bad = "restore: progress/learner flag differs"
						}
					}
				}
			}
			if bad == "" && (!ok || !reflect.DeepEqual(got, norm(cur))) {
				drift++
				if os.Getenv("VERIF_DEBUG") != "" && drift < 8 {
					fmt.Fprintf(os.Stderr, "DRIFT from=%+v op=%s spec_ok=%v spec=%+v real=%+v\n", from, opDesc, ok, cur, got)
				}
			}
		} else if err != nil && ok {
			drift++
			if os.Getenv("VERIF_DEBUG") != "" && drift < 8 {
				fmt.Fprintf(os.Stderr, "DRIFT from=%+v op=%s spec_ok=%v spec=%+v real_err=%v\n", from, opDesc, ok, cur, err)
			}
		}
		c := map[string]interface{}{"from": from, "op": opDesc, "spec_ok": ok, "spec_result": cur, "real_err": fmt.Sprint(err), "real_result": norm(absFrom(cfg)), "why": bad}
		if bad != "" {
			sum.Mismatches++
			if len(sum.Bad) < 20 {
				sum.Bad = append(sum.Bad, c)
			}
		} else if sum.Cases%30000 == 7 && len(sum.Samples) < 6 {
			sum.Samples = append(sum.Samples, c)
		}
	})
	if err != nil {
		fmt.Fprintln(os.Stderr, err)
		os.Exit(2)
	}
	sum.Kinds["drift_vs_spec"] = drift
	b, _ := json.Marshal(sum)
	fmt.Println(string(b))
}
