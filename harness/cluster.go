package main

// A deterministic, single-threaded simulation of a raft group made of REAL
// raft.RawNode instances on REAL raft.MemoryStorage, an unreliable bag network
// and an application that follows the documented Ready/Advance (or
// storage-thread) contract sub-step by sub-step. Every action is one call (or a
// fixed, contract-mandated sequence of calls) into the library; after each
// action the acting node's full state is projected into one Event.

import (
	"encoding/json"
	"fmt"
	"io"
	"sort"
	"strings"

	"go.etcd.io/raft/v3"
	"go.etcd.io/raft/v3/confchange"
	pb "go.etcd.io/raft/v3/raftpb"
	"go.etcd.io/raft/v3/tracker"
	"google.golang.org/protobuf/proto"
)

type NodeCfg = JNodeCfg

// Initial members start from a snapshot at (BootIndex, BootTerm) holding the
// bootstrap configuration; joiners start from an empty storage.
const (
	BootIndex = 1
	BootTerm  = 1
)

type NetMsg struct {
	Mid int
	M   *pb.Message
}

type AppNode struct {
	ID      uint64
	Cfg     NodeCfg
	St      *raft.MemoryStorage
	RN      *raft.RawNode
	Inc     int
	Created bool

	// sync Ready pipeline
	Phase string
	Rd    *raft.Ready
	// async storage threads
	AppendQ []*pb.Message
	// LocalQ: acknowledgements of the append thread addressed to the node itself that have not been
	// stepped yet (they travel back to the raft loop and may be overtaken by other input)
	LocalQ []*pb.Message
	ApplyQ []*pb.Message

	// fsync modelling: writes the contract does not require to be synced
	// (Ready.MustSync == false; MsgStorageAppend without responses) may be
	// lost by a crash. image = what is certainly on stable storage.
	image    *diskImage
	unsynced bool

	// durable application state
	AppliedDurable uint64
	ConfAt         map[uint64]*pb.ConfState // conf state as of index (only at change points)
	pinnedRTO      int
}

type Cluster struct {
	Nodes   map[uint64]*AppNode
	IDs     []uint64
	Net     []*NetMsg
	nextMid int
	seq     int
	Tr      int
	Out     io.Writer
	enc     *json.Encoder
	Events  int
	Panics  []string
	// record of executed steps (for deterministic re-execution, C19)
	Sched     []Step
	Cl        JCluster
	Quiet     bool
	LastEv    *Event
	Cmp       []string // when non-nil: expected event lines (re-execution compare)
	CmpDiffs  int
	rtoDraw   func(id uint64, et int) int
	RTOLog    []int
	Kinds     map[string]int // what the recorded events exercised (for the evidence files)
	lastRole  map[uint64]string
	quietFrom int // number of recorded steps when the quiet suffix started
}

// Step is one schedulable action.
type Step struct {
	Act     string `json:"act"`
	Node    uint64 `json:"node"`
	Mid     int    `json:"mid,omitempty"`
	Keep    bool   `json:"keep,omitempty"`
	Pid     int    `json:"pid,omitempty"`
	Psz     int    `json:"psz,omitempty"`
	CC      string `json:"cc,omitempty"`
	V1      bool   `json:"v1,omitempty"`
	Rid     int    `json:"rid,omitempty"`
	To      uint64 `json:"to,omitempty"`
	Ok      bool   `json:"ok,omitempty"`
	K       uint64 `json:"k,omitempty"`
	Applied uint64 `json:"applied,omitempty"`
	RTO     int    `json:"rto,omitempty"`
	// content match for schedules that do not know mids (TLC-generated)
	Match *JMsg `json:"match,omitempty"`
	// pattern selection for hand-written / abstract schedules: the oldest
	// in-flight message with this type / sender / receiver (zero = any)
	Sel *MsgSel `json:"sel,omitempty"`
}

type MsgSel struct {
	Type   string  `json:"type,omitempty"`
	From   uint64  `json:"from,omitempty"`
	To     uint64  `json:"to,omitempty"`
	Index  *uint64 `json:"index,omitempty"`
	Term   uint64  `json:"term,omitempty"`
	Reject *bool   `json:"reject,omitempty"`
	NEnts  *int    `json:"nents,omitempty"`
}

func NewCluster(cl JCluster, out io.Writer, tr int) *Cluster {
	c := &Cluster{Nodes: map[uint64]*AppNode{}, Out: out, Tr: tr, Cl: cl, nextMid: 1}
	if out != nil {
		c.enc = json.NewEncoder(out)
	}
	for _, nc := range cl.Nodes {
		c.IDs = append(c.IDs, nc.ID)
		c.Nodes[nc.ID] = &AppNode{ID: nc.ID, Cfg: nc, Phase: "idle", ConfAt: map[uint64]*pb.ConfState{}}
	}
	sort.Slice(c.IDs, func(i, j int) bool { return c.IDs[i] < c.IDs[j] })
	return c
}

func confStateOf(j JConf) *pb.ConfState {
	f := false
	cs := &pb.ConfState{Voters: append([]uint64(nil), j.Voters...), VotersOutgoing: append([]uint64(nil), j.Outgoing...),
		Learners: append([]uint64(nil), j.Learners...), LearnersNext: append([]uint64(nil), j.LearnersNext...), AutoLeave: &f}
	if j.AutoLeave {
		t := true
		cs.AutoLeave = &t
	}
	return cs
}

func (c *Cluster) raftConfig(n *AppNode, applied uint64) *raft.Config {
	nc := n.Cfg
	return &raft.Config{
		ID: nc.ID, ElectionTick: nc.ElectionTick, HeartbeatTick: nc.HeartbeatTick,
		Storage: n.St, Applied: applied,
		AsyncStorageWrites: nc.Async, MaxSizePerMsg: nc.MaxSizePerMsg,
		MaxCommittedSizePerReady: nc.MaxCommittedSize, MaxUncommittedEntriesSize: nc.MaxUncommittedSize,
		MaxInflightMsgs: nc.MaxInflightMsgs, MaxInflightBytes: nc.MaxInflightBytes,
		CheckQuorum: nc.CheckQuorum, PreVote: nc.PreVote,
		DisableProposalForwarding: nc.DisableForwarding, DisableConfChangeValidation: nc.DisableCCValid,
		StepDownOnRemoval: nc.StepDownOnRemoval,
		Logger:            discardLogger{},
	}
}

type diskImage struct {
	hs          *pb.HardState
	snap        *pb.Snapshot
	ents        []*pb.Entry
	cidx, cterm uint64
	applied     uint64
	confAt      map[uint64]*pb.ConfState
}

func (n *AppNode) takeImage() {
	hs, _, _ := n.St.InitialState()
	snap, _ := n.St.Snapshot()
	fi, _ := n.St.FirstIndex()
	li, _ := n.St.LastIndex()
	im := &diskImage{hs: hs, snap: snap, cidx: fi - 1, applied: n.AppliedDurable, confAt: map[uint64]*pb.ConfState{}}
	im.cterm, _ = n.St.Term(fi - 1)
	if li >= fi {
		im.ents, _ = n.St.Entries(fi, li+1, noLimitU)
	}
	for k, v := range n.ConfAt {
		im.confAt[k] = v
	}
	n.image = im
	n.unsynced = false
}

// storageFromImage rebuilds a MemoryStorage holding exactly the synced image.
func storageFromImage(im *diskImage) *raft.MemoryStorage {
	ms := raft.NewMemoryStorage()
	si := im.snap.GetMetadata().GetIndex()
	if im.cidx == si {
		if si != 0 || im.snap.GetMetadata().GetConfState() != nil {
			_ = ms.ApplySnapshot(im.snap)
		}
	} else {
		_ = ms.ApplySnapshot(&pb.Snapshot{Metadata: &pb.SnapshotMetadata{Index: new(im.cidx), Term: new(im.cterm), ConfState: im.snap.GetMetadata().GetConfState()}})
	}
	_ = ms.Append(im.ents)
	if si > im.cidx {
		if _, err := ms.CreateSnapshot(si, im.snap.GetMetadata().GetConfState(), nil); err != nil {
			panic("harness: rebuilding storage image: " + err.Error())
		}
	}
	if im.hs != nil {
		_ = ms.SetHardState(im.hs)
	}
	return ms
}

func jDiskOfImage(im *diskImage) JDisk { return jDisk(storageFromImage(im)) }

// ---- event emission ----------------------------------------------------------

func (c *Cluster) emit(ev *Event, n *AppNode) {
	if c.Quiet && ev.Act != "Stabilized" {
		// the fault-free suffix is executed on the real nodes but not logged step by
		// step; only the final state of every node is (C15)
		if ev.Panic != "" {
			c.Quiet = false
		} else {
			return
		}
	}
	c.seq++
	ev.L = c.seq
	ev.Tr = c.Tr
	if n != nil {
		ev.Node = n.ID
		ev.Inc = n.Inc
		ev.N = jNode(n.RN)
		if strings.HasPrefix(ev.N.Role, "X:") {
			// reading the node's state tripped an internal assertion: the process is dead
			if ev.Panic == "" {
				ev.Panic = "state read: " + strings.TrimPrefix(ev.N.Role, "X:")
				c.Panics = append(c.Panics, fmt.Sprintf("tr=%d l=%d node=%d act=%s: %s", c.Tr, c.seq+1, n.ID, ev.Act, ev.Panic))
			}
			ev.N.Role = "F"
			n.crashVolatile()
		}
		ev.D = jDisk(n.St)
		ev.P = c.jApp(n)
	} else {
		ev.N = jNode(nil)
		ev.D = JDisk{Snap: jSnap(nil), Ents: []JEntry{}}
		ev.P = JApp{Phase: "idle", AppendQ: []JMsg{}, ApplyQ: []JMsg{}, LocalQ: []JMsg{}, AppConf: jConf(nil)}
	}
	if ev.Ret == "" {
		ev.Ret = "ok"
	}
	ev.NetSz = len(c.Net)
	ev.Det = true
	c.count(ev)
	c.Events++
	c.LastEv = ev
	if c.Cmp != nil {
		b, _ := json.Marshal(ev)
		if c.seq-1 >= len(c.Cmp) || c.Cmp[c.seq-1] != string(b) {
			ev.Det = false
			c.CmpDiffs++
		}
	}
	if c.enc != nil {
		if err := c.enc.Encode(ev); err != nil {
			panic(err)
		}
	}
}

// count records which situations the recorded events exercised.
func (c *Cluster) count(ev *Event) {
	if c.Kinds == nil {
		c.Kinds = map[string]int{}
		c.lastRole = map[uint64]string{}
	}
	k := c.Kinds
	switch ev.Act {
	case "Deliver":
		if ev.A.Msg != nil {
			k["deliver:"+ev.A.Msg.Type]++
			if ev.A.Keep {
				k["deliver:duplicate"]++
			}
			if ev.A.Msg.Type == "Snap" && ev.N.USnap.Has && ev.N.USnap.Index == ev.A.Msg.Snap.Index {
				k["snapshot:installed"]++
			}
		}
	case "Ready":
		if ev.Rd != nil {
			if len(ev.Rd.Committed) > 0 {
				k["ready:committed-entries"]++
			}
			if ev.Rd.Snap.Has {
				k["ready:snapshot"]++
			}
			if len(ev.Rd.ReadStates) > 0 {
				k["ready:read-states"]++
			}
			if ev.Rd.HS.Has {
				k["ready:hardstate"]++
			}
			if !ev.Rd.MustSync && (ev.Rd.HS.Has || len(ev.Rd.Ents) > 0) {
				k["ready:no-fsync-needed"]++
			}
		}
	case "Apply", "ApplyThread":
		for _, e := range ev.A.Ents {
			if e.Type != "N" {
				k["apply:conf-change"]++
			}
		}
	case "Propose", "ProposeConfChange", "ProposeBatch":
		k["propose:"+ev.Ret]++
	case "Crash", "CrashInAppend":
		k["crash"]++
		if ev.P.SD != nil || (ev.Act == "Crash" && ev.A.Ok) {
			k["crash:with-unsynced-or-loss"]++
		}
	case "Restart":
		k["restart"]++
	}
	if ev.Panic != "" {
		k["panic"]++
	}
	if ev.Node != 0 {
		if ev.N.Up && ev.N.Role == "L" && c.lastRole[ev.Node] != "L" {
			k["became-leader"]++
		}
		if ev.N.Up && len(ev.N.Cfg.Outgoing) > 0 {
			k["event-in-joint-config"]++
		}
		if ev.N.Up {
			c.lastRole[ev.Node] = ev.N.Role
		} else {
			c.lastRole[ev.Node] = ""
		}
	}
}

func (c *Cluster) jApp(n *AppNode) JApp {
	a := JApp{Phase: n.Phase, AppendQ: jMsgs(n.AppendQ), ApplyQ: jMsgs(n.ApplyQ), LocalQ: jMsgs(n.LocalQ),
		AppliedDurable: n.AppliedDurable, Inc: n.Inc}
	idx, cs := n.confAsOf(n.AppliedDurable)
	a.LastConfIdx = idx
	a.AppConf = jConf(cs)
	a.Created = n.Created
	if n.unsynced && n.image != nil {
		sd := jDiskOfImage(n.image)
		a.SD = &sd
	}
	return a
}

func (n *AppNode) confAsOf(k uint64) (uint64, *pb.ConfState) {
	var best uint64
	var cs *pb.ConfState
	found := false
	for i, c := range n.ConfAt {
		if i <= k && (!found || i >= best) {
			best, cs, found = i, c, true
		}
	}
	return best, cs
}

// call runs f and converts a panic of the library into a string.
func call(f func()) (p string) {
	defer func() {
		if r := recover(); r != nil {
			p = fmt.Sprint(r)
			if p == "" {
				p = "panic"
			}
		}
	}()
	f()
	return ""
}

func (c *Cluster) notePanic(ev *Event, n *AppNode, p string) {
	if p == "" {
		return
	}
	ev.Panic = p
	c.Panics = append(c.Panics, fmt.Sprintf("tr=%d l=%d node=%d act=%s: %s", c.Tr, c.seq+1, n.ID, ev.Act, p))
	// A node that panicked is dead: the process would have crashed.
	n.crashVolatile()
}

func (n *AppNode) crashVolatile() {
	n.RN = nil
	n.Rd = nil
	n.Phase = "idle"
	n.AppendQ = nil
	n.ApplyQ = nil
	n.LocalQ = nil
}

// pinRTO is kept as the single place where the harness could adjust the
// timeout after a call; the draw itself now happens inside the library through
// the guarded VerifRTODraw hook, at exactly the points where raft resets it.
func (c *Cluster) pinRTO(n *AppNode) {}

func (c *Cluster) activate() {
	raft.VerifRTODraw = func(id uint64, et int) int {
		v := et
		if c.rtoDraw != nil {
			v = c.rtoDraw(id, et)
		}
		c.RTOLog = append(c.RTOLog, v)
		return v
	}
}

// ---- bootstrap ----------------------------------------------------------------

func (c *Cluster) Init() {
	c.activate()
	c.emit(&Event{Act: "Init", Cl: clampCl(c.Cl)}, nil)
	for _, id := range c.IDs {
		n := c.Nodes[id]
		if n.Cfg.Initial {
			c.Boot(id)
		}
	}
}

// Boot creates the node's storage (initial members: snapshot at index 0
// carrying the bootstrap ConfState; joiners: empty) and starts it.
func (c *Cluster) Boot(id uint64) {
	n := c.Nodes[id]
	n.St = raft.NewMemoryStorage()
	if n.Cfg.Initial {
		cs := confStateOf(c.Cl.Conf)
		// "applications bootstrap their state manually by setting up a Storage
		// that has a first index > 1 and which stores the desired ConfState"
		if err := n.St.ApplySnapshot(&pb.Snapshot{Metadata: &pb.SnapshotMetadata{ConfState: cs, Index: new(uint64(BootIndex)), Term: new(uint64(BootTerm))}}); err != nil {
			panic(err)
		}
		n.ConfAt[BootIndex] = cs
		n.AppliedDurable = BootIndex
	} else {
		n.ConfAt[0] = confStateOf(jConf(nil))
	}
	n.Created = true
	n.takeImage()
	ev := &Event{Act: "Boot"}
	p := call(func() {
		rn, err := raft.NewRawNode(c.raftConfig(n, 0))
		if err != nil {
			panic(err)
		}
		n.RN = rn
	})
	c.record(Step{Act: "Boot", Node: id})
	c.notePanic(ev, n, p)
	c.emit(ev, n)
}

func (c *Cluster) record(s Step) { c.Sched = append(c.Sched, s) }

// ---- helpers ------------------------------------------------------------------

func (c *Cluster) up(id uint64) *AppNode {
	n := c.Nodes[id]
	if n == nil || n.RN == nil {
		return nil
	}
	return n
}

func (c *Cluster) toNet(ms []*pb.Message) []JMsg {
	out := []JMsg{}
	for _, m := range ms {
		nm := &NetMsg{Mid: c.nextMid, M: m}
		c.nextMid++
		c.Net = append(c.Net, nm)
		jm := jMsg(m)
		jm.Mid = nm.Mid
		out = append(out, jm)
	}
	return out
}

func (c *Cluster) findMsg(mid int) (int, *NetMsg) {
	for i, nm := range c.Net {
		if nm.Mid == mid {
			return i, nm
		}
	}
	return -1, nil
}

func payload(pid, psz int) []byte {
	s := fmt.Sprintf("p%d.", pid)
	if psz > len(s) {
		s += strings.Repeat("x", psz-len(s))
	}
	return []byte(s)
}

func readCtx(rid int) []byte { return []byte(fmt.Sprintf("r%d.", rid)) }

// parseCC parses "<trans>:<changes>" (trans in auto|implicit|explicit|v1).
func parseCC(s string, pid int) (pb.ConfChangeI, error) {
	parts := strings.SplitN(s, ":", 2)
	if len(parts) != 2 {
		return nil, fmt.Errorf("bad cc %q", s)
	}
	ccs, err := pb.ConfChangesFromString(parts[1])
	if err != nil {
		return nil, err
	}
	ctx := []byte(fmt.Sprintf("p%d.", pid))
	if parts[0] == "v1" {
		if len(ccs) != 1 {
			return nil, fmt.Errorf("v1 needs exactly one change")
		}
		return &pb.ConfChange{Type: ccs[0].Type, NodeId: ccs[0].NodeId, Context: ctx}, nil
	}
	cc := &pb.ConfChangeV2{Changes: ccs, Context: ctx}
	switch parts[0] {
	case "auto":
		cc.Transition = pb.ConfChangeTransitionAuto.Enum()
	case "implicit":
		cc.Transition = pb.ConfChangeTransitionJointImplicit.Enum()
	case "explicit":
		cc.Transition = pb.ConfChangeTransitionJointExplicit.Enum()
	default:
		return nil, fmt.Errorf("bad transition %q", parts[0])
	}
	return cc, nil
}

func errStr(err error) string {
	if err == nil {
		return "ok"
	}
	switch err {
	case raft.ErrProposalDropped:
		return "dropped"
	case raft.ErrStepPeerNotFound:
		return "err:peer"
	case raft.ErrStepLocalMsg:
		return "err:local"
	}
	return "err:" + err.Error()
}

// ---- local API calls -----------------------------------------------------------

// Do executes one step. It returns false if the step is not enabled in the
// current real state (nothing is executed or logged then).
func (c *Cluster) Do(s Step) bool {
	c.activate()
	switch s.Act {
	case "Boot":
		n := c.Nodes[s.Node]
		if n == nil || n.Created {
			return false
		}
		c.Boot(s.Node)
		return true
	case "Tick", "Campaign", "Propose", "ProposeConfChange", "ProposeBatch", "ReadIndex", "TransferLeader", "ForgetLeader",
		"ReportUnreachable", "ReportSnapshot":
		return c.doLocal(s)
	case "Deliver":
		return c.doDeliver(s)
	case "Drop":
		i, nm := c.findMsg(c.resolveMid(s))
		if nm == nil {
			return false
		}
		c.Net = append(c.Net[:i], c.Net[i+1:]...)
		c.record(Step{Act: "Drop", Mid: nm.Mid})
		jm := jMsg(nm.M)
		jm.Mid = nm.Mid
		c.emit(&Event{Act: "Drop", A: JArgs{Mid: nm.Mid, Msg: &jm}}, nil)
		return true
	case "Ready":
		return c.doReady(s)
	case "PersistEntries", "PersistHardState", "PersistSnapshot", "Send", "Apply", "Advance":
		return c.doSyncStep(s)
	case "AppendThread":
		return c.doAppendThread(s, 99)
	case "LocalResp":
		return c.doLocalResp(s)
	case "CrashInAppend":
		return c.doAppendThread(s, int(s.K))
	case "ApplyThread":
		return c.doApplyThread(s)
	case "Snapshot":
		return c.doSnapshot(s)
	case "Compact":
		return c.doCompact(s)
	case "Crash":
		n := c.up(s.Node)
		if n == nil {
			return false
		}
		n.crashVolatile()
		if s.Ok && n.unsynced && n.image != nil {
			// power loss: writes that were never synced are gone
			n.St = storageFromImage(n.image)
			n.AppliedDurable = n.image.applied
			n.ConfAt = map[uint64]*pb.ConfState{}
			for k, v := range n.image.confAt {
				n.ConfAt[k] = v
			}
			n.unsynced = false
		} else {
			n.takeImage() // whatever was written survived this crash
		}
		c.record(s)
		c.emit(&Event{Act: "Crash", A: JArgs{Ok: s.Ok}}, n)
		return true
	case "Restart":
		return c.doRestart(s)
	case "ProcessReady": // composite: run the node's Ready pipeline to the end
		did := false
		for k := 0; k < 10; k++ {
			n := c.up(s.Node)
			if n == nil {
				break
			}
			st := nextReadyStep(n)
			if st == "" || (k > 0 && st == "Ready") || !c.Do(Step{Act: st, Node: s.Node}) {
				break
			}
			did = true
		}
		return did
	case "Stabilized":
		// also for nodes that are down: the suffix stops removed members without logging it
		n := c.Nodes[s.Node]
		if n == nil || !n.Created {
			return false
		}
		c.record(s)
		c.emit(&Event{Act: "Stabilized", A: JArgs{K: s.K, Ok: s.Ok}}, n)
		return true
	}
	panic("harness: unknown action " + s.Act)
}

func (c *Cluster) resolveMid(s Step) int {
	if s.Mid == 0 && s.Sel != nil {
		for _, nm := range c.Net {
			jm := jMsg(nm.M)
			q := s.Sel
			if (q.Type == "" || q.Type == jm.Type) && (q.From == 0 || q.From == jm.From) && (q.To == 0 || q.To == jm.To) &&
				(q.Index == nil || *q.Index == jm.Index) && (q.Term == 0 || q.Term == jm.Term) &&
				(q.Reject == nil || *q.Reject == jm.Reject) && (q.NEnts == nil || *q.NEnts == len(jm.Entries)) {
				return nm.Mid
			}
		}
		return -1
	}
	if s.Mid != 0 || s.Match == nil {
		return s.Mid
	}
	want := *s.Match
	want.Mid = 0
	wb, _ := json.Marshal(want)
	for _, nm := range c.Net {
		jm := jMsg(nm.M)
		b, _ := json.Marshal(jm)
		if string(b) == string(wb) {
			return nm.Mid
		}
	}
	return -1
}

func (c *Cluster) doLocal(s Step) bool {
	n := c.up(s.Node)
	if n == nil {
		return false
	}
	ev := &Event{Act: s.Act, A: JArgs{Pid: s.Pid, Psz: s.Psz, CC: s.CC, V1: s.V1, Rid: s.Rid, To: s.To, Ok: s.Ok}}
	var err error
	var p string
	switch s.Act {
	case "Tick":
		p = call(func() { n.RN.Tick() })
	case "Campaign":
		p = call(func() { err = n.RN.Campaign() })
	case "Propose":
		data := payload(s.Pid, s.Psz)
		ev.A.Psz = len(data)
		ev.A.Ents = jEntries([]*pb.Entry{{Data: data}})
		p = call(func() { err = n.RN.Propose(data) })
	case "ProposeConfChange":
		var cc pb.ConfChangeI
		if s.CC == "leave" {
			cc = &pb.ConfChangeV2{Context: []byte(fmt.Sprintf("p%d.", s.Pid))}
		} else {
			var perr error
			cc, perr = parseCC(s.CC, s.Pid)
			if perr != nil {
				panic("harness: " + perr.Error())
			}
		}
		if typ, data, merr := pb.MarshalConfChange(cc); merr == nil {
			ev.A.Ents = jEntries([]*pb.Entry{{Type: typ.Enum(), Data: data}})
		}
		p = call(func() { err = n.RN.ProposeConfChange(cc) })
	case "ProposeBatch":
		// one MsgProp carrying several entries (what an application that batches proposals
		// steps into the RawNode): pids Pid, Pid+1, ...; CC != "" places that conf change at
		// position K (0-based) of the batch
		var ents []*pb.Entry
		cnt := int(s.To)
		if cnt < 2 {
			cnt = 2
		}
		for k := 0; k < cnt; k++ {
			if s.CC != "" && uint64(k) == s.K {
				var cc pb.ConfChangeI
				if s.CC == "leave" {
					cc = &pb.ConfChangeV2{Context: []byte(fmt.Sprintf("p%d.", s.Pid+k))}
				} else {
					var perr error
					if cc, perr = parseCC(s.CC, s.Pid+k); perr != nil {
						panic("harness: " + perr.Error())
					}
				}
				typ, data, _ := pb.MarshalConfChange(cc)
				ents = append(ents, &pb.Entry{Type: typ.Enum(), Data: data})
			} else {
				ents = append(ents, &pb.Entry{Data: payload(s.Pid+k, s.Psz)})
			}
		}
		ev.A.Ents = jEntries(ents)
		m := &pb.Message{Type: pb.MsgProp.Enum(), From: new(n.ID), Entries: ents}
		p = call(func() { err = n.RN.Step(m) })
	case "ReadIndex":
		ev.A.Ents = jEntries([]*pb.Entry{{Data: readCtx(s.Rid)}})
		p = call(func() { n.RN.ReadIndex(readCtx(s.Rid)) })
	case "TransferLeader":
		p = call(func() { n.RN.TransferLeader(s.To) })
	case "ForgetLeader":
		p = call(func() { err = n.RN.ForgetLeader() })
	case "ReportUnreachable":
		p = call(func() { n.RN.ReportUnreachable(s.To) })
	case "ReportSnapshot":
		st := raft.SnapshotFinish
		if !s.Ok {
			st = raft.SnapshotFailure
		}
		p = call(func() { n.RN.ReportSnapshot(s.To, st) })
	}
	ev.Ret = errStr(err)
	c.record(s)
	c.notePanic(ev, n, p)
	c.pinRTO(n)
	c.emit(ev, n)
	return true
}

func (c *Cluster) doDeliver(s Step) bool {
	mid := c.resolveMid(s)
	i, nm := c.findMsg(mid)
	if nm == nil {
		return false
	}
	n := c.up(nm.M.GetTo())
	if n == nil {
		return false
	}
	if !s.Keep {
		c.Net = append(c.Net[:i], c.Net[i+1:]...)
	}
	jm := jMsg(nm.M)
	jm.Mid = nm.Mid
	ev := &Event{Act: "Deliver", A: JArgs{Mid: nm.Mid, Keep: s.Keep, Msg: &jm}}
	m := proto.Clone(nm.M).(*pb.Message) // raft may mutate stepped messages
	var err error
	p := call(func() { err = n.RN.Step(m) })
	ev.Ret = errStr(err)
	c.record(Step{Act: "Deliver", Mid: nm.Mid, Keep: s.Keep})
	c.notePanic(ev, n, p)
	c.pinRTO(n)
	c.emit(ev, n)
	return true
}

// ---- Ready handling (sync: Ready, PersistEntries, PersistHardState[+Snapshot],
// Send, Apply, Advance; async: Ready, Send, storage threads) ---------------------

func (c *Cluster) doReady(s Step) bool {
	n := c.up(s.Node)
	if n == nil || n.Phase != "idle" {
		return false
	}
	has := false
	if p := call(func() { has = n.RN.HasReady() }); p != "" {
		ev := &Event{Act: "Ready"}
		c.record(s)
		c.notePanic(ev, n, p)
		c.emit(ev, n)
		return true
	}
	if !has {
		return false
	}
	ev := &Event{Act: "Ready"}
	var rd raft.Ready
	p := call(func() { rd = n.RN.Ready() })
	if p == "" {
		n.Rd = &rd
		n.Phase = "ready"
		ev.Rd = jReady(&rd)
	}
	c.record(s)
	c.notePanic(ev, n, p)
	c.pinRTO(n)
	c.emit(ev, n)
	return true
}

func (c *Cluster) persistSnapAndHS(n *AppNode, snap *pb.Snapshot, hs *pb.HardState) {
	// A snapshot and the HardState that acknowledges it are written atomically
	// (see DESIGN.md, contract notes): neither order of two separate writes
	// leaves a storage NewRawNode accepts.
	if snap != nil && !raft.IsEmptySnap(snap) {
		if err := n.St.ApplySnapshot(snap); err != nil && err != raft.ErrSnapOutOfDate {
			panic(err)
		}
		// the application state machine is restored from the snapshot as well
		idx := snap.GetMetadata().GetIndex()
		if idx > n.AppliedDurable {
			n.AppliedDurable = idx
		}
		for i := range n.ConfAt {
			if i > idx {
				delete(n.ConfAt, i)
			}
		}
		n.ConfAt[idx] = proto.Clone(snap.GetMetadata().GetConfState()).(*pb.ConfState)
	}
	if hs != nil && !raft.IsEmptyHardState(hs) {
		_ = n.St.SetHardState(proto.Clone(hs).(*pb.HardState))
	}
}

func (c *Cluster) doSyncStep(s Step) bool {
	n := c.up(s.Node)
	if n == nil || n.Rd == nil {
		return false
	}
	rd := n.Rd
	async := n.Cfg.Async
	ev := &Event{Act: s.Act}
	var p string
	switch s.Act {
	case "PersistEntries":
		// sync only. Snapshot (if any) must precede entries in MemoryStorage and
		// is atomic with the HardState, so a Ready with a snapshot is persisted
		// in one step ("PersistSnapshot").
		if async || n.Phase != "ready" || !raft.IsEmptySnap(rd.Snapshot) {
			return false
		}
		p = call(func() {
			if err := n.St.Append(rd.Entries); err != nil {
				panic(err)
			}
		})
		ev.A.Ents = jEntries(rd.Entries)
		n.Phase = "ents"
		if rd.MustSync {
			n.takeImage() // fsync: everything written so far is durable
		} else if len(rd.Entries) > 0 {
			n.unsynced = true
		}
	case "PersistHardState":
		if async || n.Phase != "ents" {
			return false
		}
		c.persistSnapAndHS(n, nil, rd.HardState)
		n.Phase = "hs"
		if rd.MustSync {
			n.takeImage()
		} else if len(rd.Entries) > 0 || !raft.IsEmptyHardState(rd.HardState) {
			n.unsynced = true
		}
	case "PersistSnapshot":
		if async || n.Phase != "ready" || raft.IsEmptySnap(rd.Snapshot) {
			return false
		}
		p = call(func() {
			c.persistSnapAndHS(n, rd.Snapshot, rd.HardState)
			if err := n.St.Append(rd.Entries); err != nil {
				panic(err)
			}
		})
		ev.A.Ents = jEntries(rd.Entries)
		n.Phase = "hs"
		n.takeImage()
	case "Send":
		if async {
			if n.Phase != "ready" {
				return false
			}
			var out []*pb.Message
			for _, m := range rd.Messages {
				switch {
				case m.GetTo() == raft.LocalAppendThread:
					n.AppendQ = append(n.AppendQ, m)
				case m.GetTo() == raft.LocalApplyThread:
					n.ApplyQ = append(n.ApplyQ, m)
				default:
					out = append(out, m)
				}
			}
			ev.A.Msgs = c.toNet(out)
			n.Rd = nil
			n.Phase = "idle"
		} else {
			if n.Phase != "hs" {
				return false
			}
			ev.A.Msgs = c.toNet(rd.Messages)
			n.Phase = "sent"
		}
	case "Apply":
		if async || n.Phase != "sent" {
			return false
		}
		p = c.applyEntries(n, rd.CommittedEntries, ev)
		n.Phase = "applied"
		if !n.unsynced {
			n.takeImage()
		}
	case "Advance":
		if async || n.Phase != "applied" {
			return false
		}
		p = call(func() { n.RN.Advance(*rd) })
		n.Rd = nil
		n.Phase = "idle"
	}
	c.record(s)
	c.notePanic(ev, n, p)
	c.pinRTO(n)
	c.emit(ev, n)
	return true
}

// applyEntries hands committed entries to the application state machine.
func (c *Cluster) applyEntries(n *AppNode, ents []*pb.Entry, ev *Event) string {
	ev.A.Ents = jEntries(ents)
	return call(func() {
		for _, e := range ents {
			var cs *pb.ConfState
			switch e.GetType() {
			case pb.EntryConfChange:
				var cc pb.ConfChange
				if err := proto.Unmarshal(e.GetData(), &cc); err != nil {
					panic(err)
				}
				if v := n.validated(cc.AsV2()); v != nil {
					cs = n.RN.ApplyConfChange(v)
				}
			case pb.EntryConfChangeV2:
				var cc pb.ConfChangeV2
				if err := proto.Unmarshal(e.GetData(), &cc); err != nil {
					panic(err)
				}
				if v := n.validated(&cc); v != nil {
					cs = n.RN.ApplyConfChange(v)
				}
			}
			if cs != nil {
				n.ConfAt[e.GetIndex()] = proto.Clone(cs).(*pb.ConfState)
			}
			if e.GetIndex() > n.AppliedDurable {
				n.AppliedDurable = e.GetIndex()
			}
		}
	})
}

// validated implements the documented apply-time veto ("The app must call
// ApplyConfChange when it applies a configuration change, except when it
// decides to reject the configuration change, in which case no call must take
// place"): a conf change that is not applicable to the node's current
// configuration is rejected (nil: no call) instead of being handed to
// ApplyConfChange, which would panic on it. Applicability is decided by the library's own
// confchange.Changer on a scratch tracker restored from the current ConfState.
func (n *AppNode) validated(cc *pb.ConfChangeV2) *pb.ConfChangeV2 {
	cur := n.RN.Status().Config // (inside applyEntries' recover)
	scratch := tracker.MakeProgressTracker(1, 0)
	cs := (&tracker.ProgressTracker{Config: cur}).ConfState()
	cfg, prs, err := confchange.Restore(confchange.Changer{Tracker: scratch, LastIndex: 0}, cs)
	if err == nil {
		scratch.Config, scratch.Progress = cfg, prs
		ch := confchange.Changer{Tracker: scratch, LastIndex: 0}
		if cc.LeaveJoint() {
			_, _, err = ch.LeaveJoint()
		} else if autoLeave, ok := cc.EnterJoint(); ok {
			_, _, err = ch.EnterJoint(autoLeave, cc.Changes...)
		} else {
			_, _, err = ch.Simple(cc.Changes...)
		}
	}
	if err != nil {
		return nil
	}
	return cc
}

// doAppendThread processes the head of the append queue. stages < 99 means the
// node crashes after the given number of durable writes (0 = nothing, 1 =
// entries only); with 99 everything is written and the responses released.
func (c *Cluster) doAppendThread(s Step, stages int) bool {
	n := c.up(s.Node)
	if n == nil || len(n.AppendQ) == 0 {
		return false
	}
	m := n.AppendQ[0]
	jm := jMsg(m)
	ev := &Event{Act: s.Act, A: JArgs{Msg: &jm, K: uint64(stages)}}
	hs := &pb.HardState{Term: new(m.GetTerm()), Vote: new(m.GetVote()), Commit: new(m.GetCommit())}
	hasSnap := m.GetSnapshot() != nil && !raft.IsEmptySnap(m.GetSnapshot())
	if stages < 99 {
		// crash variants are only distinct without a snapshot (atomic write)
		if hasSnap && stages > 0 {
			return false
		}
		if stages >= 1 {
			_ = n.St.Append(m.GetEntries())
		}
		n.takeImage() // what reached the disk before the crash is what survives it
		n.crashVolatile()
		c.record(s)
		c.emit(ev, n)
		return true
	}
	n.AppendQ = n.AppendQ[1:]
	p := call(func() {
		if hasSnap {
			c.persistSnapAndHS(n, m.GetSnapshot(), hs)
			if err := n.St.Append(m.GetEntries()); err != nil {
				panic(err)
			}
		} else {
			if err := n.St.Append(m.GetEntries()); err != nil {
				panic(err)
			}
			c.persistSnapAndHS(n, nil, hs)
		}
	})
	if p == "" {
		// "All writes performed in service of a MsgStorageAppend must be durable
		// before response messages are delivered. However, if the
		// MsgStorageAppend carries no response messages, durability is not
		// required."
		if len(m.GetResponses()) > 0 {
			n.takeImage()
		} else {
			n.unsynced = true
		}
		var out []*pb.Message
		// the acknowledgements to the node itself are stepped at once, or (keep) travel back to the
		// raft loop in order and are stepped by later LocalResp actions
		deferred := s.Keep || len(n.LocalQ) > 0
		ev.A.Keep = deferred
		for _, r := range m.GetResponses() {
			if r.GetTo() == n.ID {
				rr := proto.Clone(r).(*pb.Message)
				if deferred {
					n.LocalQ = append(n.LocalQ, rr)
					continue
				}
				ev.A.Stepped = append(ev.A.Stepped, jMsg(r))
				if p = call(func() { _ = n.RN.Step(rr) }); p != "" {
					break
				}
			} else {
				out = append(out, r)
			}
		}
		if p == "" {
			ev.A.Msgs = c.toNet(out)
		}
	}
	c.record(s)
	c.notePanic(ev, n, p)
	c.pinRTO(n)
	c.emit(ev, n)
	return true
}

func (c *Cluster) doLocalResp(s Step) bool {
	n := c.up(s.Node)
	if n == nil || len(n.LocalQ) == 0 {
		return false
	}
	m := n.LocalQ[0]
	n.LocalQ = n.LocalQ[1:]
	jm := jMsg(m)
	ev := &Event{Act: "LocalResp", A: JArgs{Msg: &jm, Stepped: []JMsg{jm}}}
	p := call(func() { _ = n.RN.Step(m) })
	c.record(s)
	c.notePanic(ev, n, p)
	c.pinRTO(n)
	c.emit(ev, n)
	return true
}

func (c *Cluster) doApplyThread(s Step) bool {
	n := c.up(s.Node)
	if n == nil || len(n.ApplyQ) == 0 {
		return false
	}
	m := n.ApplyQ[0]
	n.ApplyQ = n.ApplyQ[1:]
	jm := jMsg(m)
	ev := &Event{Act: "ApplyThread", A: JArgs{Msg: &jm}}
	p := c.applyEntries(n, m.GetEntries(), ev)
	if p == "" {
		for _, r := range m.GetResponses() {
			ev.A.Stepped = append(ev.A.Stepped, jMsg(r))
			rr := proto.Clone(r).(*pb.Message)
			if p = call(func() { _ = n.RN.Step(rr) }); p != "" {
				break
			}
		}
	}
	c.record(s)
	c.notePanic(ev, n, p)
	c.pinRTO(n)
	c.emit(ev, n)
	return true
}

// ---- storage maintenance --------------------------------------------------------

func (c *Cluster) snapBounds(n *AppNode) (lo, hi uint64) {
	snap, _ := n.St.Snapshot()
	li, _ := n.St.LastIndex()
	hs, _, _ := n.St.InitialState()
	lo = snap.GetMetadata().GetIndex() + 1
	hi = min(n.AppliedDurable, li, hs.GetCommit())
	return
}

func (c *Cluster) doSnapshot(s Step) bool {
	n := c.Nodes[s.Node]
	if n == nil || !n.Created {
		return false
	}
	lo, hi := c.snapBounds(n)
	if s.K < lo || s.K > hi {
		return false
	}
	_, cs := n.confAsOf(s.K)
	if _, err := n.St.CreateSnapshot(s.K, cs, nil); err != nil {
		return false
	}
	jc := jConf(cs)
	if !n.unsynced {
		n.takeImage()
	}
	c.record(s)
	c.emit(&Event{Act: "Snapshot", A: JArgs{K: s.K, Conf: &jc}}, n)
	return true
}

func (c *Cluster) doCompact(s Step) bool {
	n := c.Nodes[s.Node]
	if n == nil || !n.Created {
		return false
	}
	snap, _ := n.St.Snapshot()
	fi, _ := n.St.FirstIndex()
	if s.K < fi || s.K > snap.GetMetadata().GetIndex() {
		return false
	}
	// "It is the application's responsibility to not attempt to compact an index greater
	// than raftLog.applied" (after a restart with a smaller Applied, raft re-delivers)
	if n.RN != nil {
		if st, perr := safeState(n.RN); perr != "" || s.K > st.Applied {
			return false
		}
	}
	if err := n.St.Compact(s.K); err != nil {
		return false
	}
	if !n.unsynced {
		n.takeImage()
	}
	c.record(s)
	c.emit(&Event{Act: "Compact", A: JArgs{K: s.K}}, n)
	return true
}

// RestartRange returns the admissible Config.Applied values for a restart:
// [snapshot index, min(durable applied, durable commit)] cut before the first
// conf-change entry after the snapshot (the node's configuration is rebuilt
// from the snapshot's ConfState, so every later change must be re-delivered).
func (c *Cluster) RestartRange(n *AppNode) (lo, hi uint64) {
	snap, _ := n.St.Snapshot()
	hs, _, _ := n.St.InitialState()
	lo = snap.GetMetadata().GetIndex()
	hi = min(n.AppliedDurable, hs.GetCommit())
	if hi < lo {
		hi = lo
	}
	fi, _ := n.St.FirstIndex()
	li, _ := n.St.LastIndex()
	if li >= fi {
		ents, _ := n.St.Entries(fi, li+1, noLimitU)
		for _, e := range ents {
			if e.GetIndex() > lo && e.GetIndex() <= hi && e.GetType() != pb.EntryNormal {
				hi = e.GetIndex() - 1
				break
			}
		}
	}
	return
}

func (c *Cluster) doRestart(s Step) bool {
	n := c.Nodes[s.Node]
	if n == nil || !n.Created || n.RN != nil {
		return false
	}
	lo, hi := c.RestartRange(n)
	a := s.Applied
	if a < lo || a > hi {
		return false
	}
	n.Inc++
	ev := &Event{Act: "Restart", A: JArgs{Applied: a}}
	p := call(func() {
		rn, err := raft.NewRawNode(c.raftConfig(n, a))
		if err != nil {
			panic(err)
		}
		n.RN = rn
	})
	// raft's view of the config is rebuilt from the snapshot; the app's
	// durable history beyond Applied is kept (it dedupes re-delivered entries).
	c.record(s)
	c.notePanic(ev, n, p)
	c.pinRTO(n)
	c.emit(ev, n)
	return true
}

type discardLogger struct{}

func (discardLogger) Debug(v ...interface{})                   {}
func (discardLogger) Debugf(format string, v ...interface{})   {}
func (discardLogger) Error(v ...interface{})                   {}
func (discardLogger) Errorf(format string, v ...interface{})   {}
func (discardLogger) Info(v ...interface{})                    {}
func (discardLogger) Infof(format string, v ...interface{})    {}
func (discardLogger) Warning(v ...interface{})                 {}
func (discardLogger) Warningf(format string, v ...interface{}) {}
func (discardLogger) Fatal(v ...interface{})                   { panic(fmt.Sprint(v...)) }
func (discardLogger) Fatalf(format string, v ...interface{})   { panic(fmt.Sprintf(format, v...)) }
func (discardLogger) Panic(v ...interface{})                   { panic(fmt.Sprint(v...)) }
func (discardLogger) Panicf(format string, v ...interface{})   { panic(fmt.Sprintf(format, v...)) }
