package main

func cmdConfChange(args []string) { panic("not built yet") }
func cmdLogStore(args []string)   { panic("not built yet") }
