package main

func cmdLogStore(args []string) { panic("not built yet") }
