package main

func cmdQuorum(args []string)     { panic("not built yet") }
func cmdConfChange(args []string) { panic("not built yet") }
func cmdLogStore(args []string)   { panic("not built yet") }
