package main

// Scenario drivers: structured, randomized fault patterns ("nemeses") built from
// the same contract-respecting actions as the plain random driver. A scenario
// is a sequence of phases; inside a phase the weighted random chooser runs with
// phase-specific weights, link partitions and frozen (stalled) components, so
// the interleavings inside every phase are still random and seed-dependent.

import (
	"fmt"
	"os"
	"sort"

	pb "go.etcd.io/raft/v3/raftpb"
)

// progress-only weights: deliver, ready handling, storage threads, a few ticks
var calm = Profile{Name: "calm", Tick: 6, Deliver: 40, ReadyStep: 40, AppendTh: 25, ApplyTh: 20, Restart: 0}

func (d *Driver) with(p Profile, steps int) {
	saved, savedChaos := d.p, d.chaos
	p.MaxNodes = saved.MaxNodes
	d.p = p
	d.chaos = true // weights are taken as given
	d.forceChaos = true
	for i := 0; i < steps; i++ {
		if !d.Step() {
			break
		}
	}
	d.p, d.chaos = saved, savedChaos
	d.forceChaos = false
}

func (d *Driver) leader() *AppNode {
	var best *AppNode
	var bt uint64
	for _, n := range d.upNodes() {
		if !safeIsLeader(n.RN) {
			continue
		}
		if st := n.RN.BasicStatus(); st.GetTerm() >= bt {
			best, bt = n, st.GetTerm()
		}
	}
	return best
}

func (d *Driver) others(id uint64) []uint64 {
	var out []uint64
	for _, x := range d.c.IDs {
		if x != id && d.c.Nodes[x].Created {
			out = append(out, x)
		}
	}
	return out
}

func (d *Driver) pick(ids []uint64) uint64 {
	if len(ids) == 0 {
		return 0
	}
	return ids[d.r.Intn(len(ids))]
}

// elect runs until some node leads (bounded).
func (d *Driver) elect(maxSteps int) *AppNode {
	p := calm
	p.Tick = 25
	for i := 0; i < maxSteps/10; i++ {
		if l := d.leader(); l != nil {
			return l
		}
		d.with(p, 10)
	}
	return d.leader()
}

func (d *Driver) settle(steps int) { d.with(calm, steps) }

func (d *Driver) propose(n *AppNode, k int, big bool) {
	for i := 0; i < k; i++ {
		if d.c.up(n.ID) == nil {
			return
		}
		psz := 0
		if big && pct(d.r, 50) {
			psz = 30 + d.r.Intn(120)
		} else if pct(d.r, 30) {
			psz = 8 + d.r.Intn(20)
		}
		if d.c.Do(Step{Act: "Propose", Node: n.ID, Pid: d.nextPid, Psz: psz}) {
			d.nextPid++
		}
		if pct(d.r, 50) {
			d.with(calm, 1+d.r.Intn(4))
		}
	}
}

func (d *Driver) isolate(group []uint64) {
	in := map[uint64]bool{}
	for _, g := range group {
		in[g] = true
	}
	for _, a := range d.c.IDs {
		for _, b := range d.c.IDs {
			if a != b && in[a] != in[b] {
				d.blocked[[2]uint64{a, b}] = true
			}
		}
	}
}

func (d *Driver) heal() { d.blocked = map[[2]uint64]bool{} }

func (d *Driver) unfreeze() {
	d.frozenReady, d.frozenAppend, d.frozenApply, d.frozenLocal = map[uint64]bool{}, map[uint64]bool{}, map[uint64]bool{}, map[uint64]bool{}
}

func (d *Driver) pipeline(id uint64) {
	d.c.Do(Step{Act: "ProcessReady", Node: id})
}

func (d *Driver) snapCompact(n *AppNode) {
	if lo, hi := d.c.snapBounds(n); hi >= lo {
		k := hi
		if hi > lo && pct(d.r, 40) {
			k = lo + uint64(d.r.Intn(int(hi-lo)+1))
		}
		if d.c.Do(Step{Act: "Snapshot", Node: n.ID, K: k}) {
			ck := k
			if pct(d.r, 30) && k > 2 {
				ck = k - 1
			}
			d.c.Do(Step{Act: "Compact", Node: n.ID, K: ck})
		}
	}
}

// deliverSel delivers the oldest in-flight message matching the selector, ignoring holds.
func (d *Driver) deliverSel(sel MsgSel) bool { return d.c.Do(Step{Act: "Deliver", Sel: &sel}) }

func (d *Driver) releaseHolds() { d.holdTypes = map[pb.MessageType]bool{}; d.holdIf = nil }

// runNode lets one node work through its Ready pipeline and storage threads.
func (d *Driver) runNode(id uint64) {
	for k := 0; k < 6; k++ {
		n := d.c.up(id)
		if n == nil {
			return
		}
		did := d.c.Do(Step{Act: "ProcessReady", Node: id})
		for d.c.up(id) != nil && len(n.LocalQ) > 0 && !d.frozenLocal[id] && d.c.Do(Step{Act: "LocalResp", Node: id}) {
			did = true
		}
		for d.c.up(id) != nil && len(n.AppendQ) > 0 && !d.frozenAppend[id] && d.c.Do(Step{Act: "AppendThread", Node: id, Keep: d.frozenLocal[id]}) {
			did = true
		}
		for d.c.up(id) != nil && len(n.ApplyQ) > 0 && !d.frozenApply[id] && d.c.Do(Step{Act: "ApplyThread", Node: id}) {
			did = true
		}
		if !did {
			return
		}
	}
}

type scenario struct {
	name string
	run  func(d *Driver)
}

var scenarios = []scenario{
	{"stale-leader", scStaleLeader},
	{"lagging-snapshot", scLaggingSnapshot},
	{"conf-lagging-applier", scConfLaggingApplier},
	{"disk-stall", scDiskStall},
	{"vote-race", scVoteRace},
	{"pagination", scPagination},
	{"transfer", scTransfer},
	{"reads", scReads},
	{"crash-points", scCrashPoints},
	{"flow", scFlow},
	{"big-joint", scBigJoint},
	{"ack-race", scAckRace},
	{"snapshot-race", scSnapshotRace},
}

// an old leader is cut off (alone or with a minority) and keeps acting while
// the majority elects a new one; then the partition heals
func scStaleLeader(d *Driver) {
	l := d.elect(300)
	if l == nil {
		return
	}
	d.propose(l, 1+d.r.Intn(3), false)
	d.settle(20 + d.r.Intn(40))
	group := []uint64{l.ID}
	oth := d.others(l.ID)
	if len(oth) >= 3 && pct(d.r, 40) {
		group = append(group, d.pick(oth))
	}
	stalled := pct(d.r, 50)
	if stalled {
		// the old leader has accepted a Ready with new entries but its disk is slow:
		// the entries stay unstable while the world moves on
		d.frozenReady[l.ID] = true
		d.frozenAppend[l.ID] = true
		for k := 0; k < 1+d.r.Intn(4); k++ {
			if d.c.Do(Step{Act: "Propose", Node: l.ID, Pid: d.nextPid, Psz: d.r.Intn(20)}) {
				d.nextPid++
			}
			if l.Cfg.Async && pct(d.r, 70) {
				// async writes: every batch is handed to the (stalled) append thread and its
				// messages go out at once, so the followers may end up with a prefix only
				d.c.Do(Step{Act: "Ready", Node: l.ID})
				d.c.Do(Step{Act: "Send", Node: l.ID})
				if pct(d.r, 60) {
					d.with(calm, 1+d.r.Intn(6))
				}
			}
		}
		if pct(d.r, 70) {
			d.c.Do(Step{Act: "Ready", Node: l.ID})
			if l.Cfg.Async {
				d.c.Do(Step{Act: "Send", Node: l.ID})
			}
		}
	} else if pct(d.r, 40) { // some messages still in flight when the partition starts
		d.propose(l, 1+d.r.Intn(2), false)
	}
	d.isolate(group)
	p := calm
	p.Tick, p.Propose, p.Read, p.Dup, p.Campaign = 30, 6, 4, 3, 1
	if pct(d.r, 50) {
		p.Unreach, p.RepSnap = 10, 3 // the transport reports the peers it cannot reach
	}
	d.with(p, 80+d.r.Intn(120))
	if !stalled && pct(d.r, 50) {
		if n := d.c.up(l.ID); n != nil {
			d.propose(n, 1+d.r.Intn(2), false)
		}
	}
	if l2 := d.leader(); l2 != nil && l2.ID != l.ID {
		d.propose(l2, 1+d.r.Intn(3), false)
		d.with(calm, 20+d.r.Intn(30))
	}
	d.heal()
	if stalled {
		// the new leader's traffic reaches the old one before its old write completes
		d.with(calm, 10+d.r.Intn(30))
		d.unfreeze()
	}
	p.Tick = 10
	d.with(p, 60+d.r.Intn(80))
}

// a follower falls behind, the leader compacts, snapshots race with appends,
// duplicates, failed transfers and further compactions
func scLaggingSnapshot(d *Driver) {
	l := d.elect(300)
	if l == nil {
		return
	}
	oth := d.others(l.ID)
	if len(oth) == 0 {
		return
	}
	f := d.pick(oth)
	if d.c.Nodes[f].Cfg.Async && pct(d.r, 50) {
		d.frozenApply[f] = true // its apply thread is slow: committed entries queue up
	}
	d.propose(l, 1+d.r.Intn(2), false)
	d.settle(20 + d.r.Intn(30))
	if len(d.c.IDs) == 3 && (pct(d.r, 50) || os.Getenv("VERIF_DEBUG_SC") == "tail") {
		scHigherTermTail(d, l)
		return
	}
	if len(oth) >= 2 && pct(d.r, 25) {
		scVoteRightAfterSnapshot(d, l, f)
		return
	}
	if d.c.Nodes[f].Cfg.Async && len(oth) >= 2 && pct(d.r, 50) {
		switch d.r.Intn(3) {
		case 0:
			scApplyVsSnapshot(d, l, f)
		case 1:
			scSnapshotAckAfterTermChange(d, l, f)
		default:
			scTwoSnapshotsRacing(d, l, f)
		}
		return
	}
	if pct(d.r, 40) {
		// the lagging node is the deposed leader, with an unreplicated divergent tail
		f = l.ID
		d.isolate([]uint64{f})
		d.propose(l, 1+d.r.Intn(4), false)
		d.runNode(f)
		p := calm
		p.Tick = 30
		d.with(p, 100+d.r.Intn(60))
		l = d.leader()
		if l == nil || l.ID == f {
			d.heal()
			d.settle(80)
			return
		}
	} else {
		d.isolate([]uint64{f})
	}
	d.propose(l, 3+d.r.Intn(5), pct(d.r, 40))
	d.settle(40 + d.r.Intn(40))
	if n := d.c.up(l.ID); n != nil {
		d.snapCompact(n)
	}
	// snapshots are slow to travel: they stay in the network while everything else flows
	d.holdTypes[pb.MsgSnap] = pct(d.r, 75)
	d.heal()
	p := calm
	p.Dup, p.Drop, p.RepSnap, p.Propose, p.Tick = 6, 2, 6, 4, 10
	for round := 0; round < 2+d.r.Intn(3); round++ {
		d.with(p, 20+d.r.Intn(40))
		if n := d.leader(); n != nil && pct(d.r, 60) {
			d.propose(n, 1+d.r.Intn(3), false)
			d.settle(10 + d.r.Intn(20))
			d.snapCompact(n)
		}
		if n := d.leader(); n != nil && n.ID != f && (d.holdTypes[pb.MsgSnap] || pct(d.r, 50)) {
			// the application reports the (still travelling) snapshot as sent or failed: the leader
			// sends a newer one while the first is under way
			d.c.Do(Step{Act: "ReportSnapshot", Node: n.ID, To: f, Ok: pct(d.r, 50)})
			if d.holdTypes[pb.MsgSnap] {
				if _, hi := d.c.snapBounds(n); hi > 1 {
					if d.c.Do(Step{Act: "Snapshot", Node: n.ID, K: hi}) {
						d.c.Do(Step{Act: "Compact", Node: n.ID, K: hi})
					}
				}
				for t := 0; t < 2; t++ {
					d.c.Do(Step{Act: "Tick", Node: n.ID})
					d.with(calm, 8)
				}
			}
		}
		if pct(d.r, 40) {
			d.frozenReady[f] = !d.frozenReady[f]
		}
		if pct(d.r, 30) {
			d.frozenAppend[f] = !d.frozenAppend[f]
		}
	}
	// release the delayed snapshots newest first (reordering), possibly while the
	// follower has not yet handled the previous one
	if d.holdTypes[pb.MsgSnap] {
		d.releaseHolds()
		var snaps []*NetMsg
		for _, nm := range d.c.Net {
			if nm.M.GetType() == pb.MsgSnap {
				snaps = append(snaps, nm)
			}
		}
		d.frozenReady[f] = pct(d.r, 60)
		d.frozenAppend[f] = d.frozenReady[f]
		dbg("lagging-snapshot: snapshots released", len(snaps), "frozen", d.frozenReady[f])
		for k := len(snaps) - 1; k >= 0; k-- {
			d.c.Do(Step{Act: "Deliver", Mid: snaps[k].Mid, Keep: pct(d.r, 20)})
			if pct(d.r, 30) {
				d.with(calm, 1+d.r.Intn(5))
			}
		}
		if len(snaps) > 0 && pct(d.r, 50) {
			// right after the leader's snapshot reached f, somebody else asks f for its vote
			if oo := d.others(f); len(oo) > 0 {
				c := d.pick(oo)
				d.c.Do(Step{Act: "Campaign", Node: c})
				d.pipeline(c)
				d.deliverSel(MsgSel{Type: "PreVote", From: c, To: f})
				d.deliverSel(MsgSel{Type: "Vote", From: c, To: f})
			}
		}
	}
	d.with(p, 20)
	if d.frozenAppend[f] && pct(d.r, 60) {
		// the term changes while the write that installs the snapshot is still queued
		d.frozenReady[f] = false
		d.pipeline(f) // the write is handed to the (stalled) append thread
		if oo := d.others(f); len(oo) > 0 {
			d.c.Do(Step{Act: "Campaign", Node: d.pick(oo)})
			d.with(p, 30+d.r.Intn(30))
		}
	}
	d.unfreeze()
	d.with(p, 80)
}

// f follows the leader but has heard nothing from it for almost an election timeout when the snapshot
// it needs arrives; one tick later another node asks f for its vote
func scVoteRightAfterSnapshot(d *Driver, l *AppNode, f uint64) {
	d.frozenApply[f] = false
	d.runNode(f)
	d.isolate([]uint64{f})
	d.dropWhere(func(m *pb.Message) bool { return m.GetTo() == f || m.GetFrom() == f })
	d.propose(l, 2+d.r.Intn(3), false)
	d.waitFor(60, func() bool {
		st, perr := safeState(l.RN)
		return perr != "" || (st.Commit == st.LastIndex && st.Applied == st.Commit)
	})
	if d.c.up(l.ID) == nil || !safeIsLeader(l.RN) || d.c.up(f) == nil {
		d.heal()
		d.settle(100)
		return
	}
	if _, hi := d.c.snapBounds(l); hi > 1 {
		if d.c.Do(Step{Act: "Snapshot", Node: l.ID, K: hi}) {
			d.c.Do(Step{Act: "Compact", Node: l.ID, K: hi})
		}
	}
	d.heal()
	d.holdTypes[pb.MsgSnap] = true
	onWire := func() bool {
		for _, nm := range d.c.Net {
			if nm.M.GetType() == pb.MsgSnap && nm.M.GetTo() == f {
				return true
			}
		}
		return false
	}
	p := calm
	p.Tick = 0
	for k := 0; k < 25 && !onWire(); k++ {
		d.c.Do(Step{Act: "Tick", Node: l.ID})
		d.with(p, 12)
		d.reportStaleSnapshots()
	}
	// from now on nothing of the leader reaches f but the snapshot
	d.blocked[[2]uint64{l.ID, f}] = true
	et := d.c.Nodes[f].Cfg.ElectionTick
	for t := 0; t < et-1; t++ {
		d.c.Do(Step{Act: "Tick", Node: f})
	}
	d.releaseHolds()
	d.deliverSel(MsgSel{Type: "Snap", To: f})
	d.c.Do(Step{Act: "Tick", Node: f})
	var other uint64
	for _, id := range d.others(l.ID) {
		if id != f {
			other = id
		}
	}
	d.c.Do(Step{Act: "Campaign", Node: other})
	d.pipeline(other)
	d.runNode(other)
	d.deliverSel(MsgSel{Type: "PreVote", From: other, To: f})
	d.deliverSel(MsgSel{Type: "Vote", From: other, To: f})
	d.runNode(f)
	d.heal()
	p.Tick = 6
	d.with(p, 60)
	for k := 0; k < 3; k++ {
		d.reportStaleSnapshots()
		d.with(p, 20)
	}
}

// follower f (asynchronous storage writes) is caught up by a snapshot; while its append thread is still
// installing it, f learns of a new term, so the acknowledgement of the snapshot carries the old one
func scSnapshotAckAfterTermChange(d *Driver, l *AppNode, f uint64) {
	d.frozenApply[f] = false // (a node does not accept a snapshot while its application lags)
	d.runNode(f)
	d.isolate([]uint64{f})
	d.dropWhere(func(m *pb.Message) bool { return m.GetTo() == f || m.GetFrom() == f })
	d.propose(l, 2+d.r.Intn(3), false)
	d.waitFor(60, func() bool {
		st, perr := safeState(l.RN)
		return perr != "" || (st.Commit == st.LastIndex && st.Applied == st.Commit)
	})
	if d.c.up(l.ID) == nil || !safeIsLeader(l.RN) {
		d.heal()
		d.settle(100)
		return
	}
	if _, hi := d.c.snapBounds(l); hi > 1 {
		if d.c.Do(Step{Act: "Snapshot", Node: l.ID, K: hi}) {
			d.c.Do(Step{Act: "Compact", Node: l.ID, K: hi})
		}
	}
	d.heal()
	d.holdTypes[pb.MsgSnap] = true
	snapOnWire := func() bool {
		for _, nm := range d.c.Net {
			if nm.M.GetType() == pb.MsgSnap && nm.M.GetTo() == f {
				return true
			}
		}
		return false
	}
	p0 := calm
	p0.Tick = 0
	for k := 0; k < 25 && !snapOnWire(); k++ {
		d.c.Do(Step{Act: "Tick", Node: l.ID})
		d.with(p0, 12)
		d.reportStaleSnapshots()
	}
	d.frozenAppend[f] = true
	d.releaseHolds()
	d.deliverSel(MsgSel{Type: "Snap", To: f})
	d.pipeline(f)
	queued := func() bool {
		n := d.c.up(f)
		if n == nil {
			return true
		}
		for _, m := range n.AppendQ {
			if m.GetSnapshot() != nil && m.GetSnapshot().GetMetadata().GetIndex() > 0 {
				return true
			}
		}
		return false
	}
	p := calm
	p.Tick = 0
	for k := 0; k < 20 && !queued(); k++ {
		d.c.Do(Step{Act: "Tick", Node: l.ID})
		d.with(p, 12)
		d.reportStaleSnapshots()
	}
	dbg("snapshot-ack: snapshot write queued at f:", queued())
	if !queued() && os.Getenv("VERIF_DEBUG_SC") != "" {
		jl, jf := jNode(l.RN), jNode(d.c.Nodes[f].RN)
		dbg("   leader", l.ID, jl.Role, "term", jl.Term, "first", jl.First, "last", jl.Last, "prs", fmt.Sprint(jl.Prs))
		dbg("   f", f, "up", jf.Up, jf.Role, "term", jf.Term, "commit", jf.Commit, "applying", jf.Applying, "applied", jf.Applied, "last", jf.Last, "usnap", jf.USnap.Has, "appendQ", len(d.c.Nodes[f].AppendQ), "net", len(d.c.Net))
	}
	// a new term reaches f
	var other uint64
	for _, id := range d.others(l.ID) {
		if id != f {
			other = id
		}
	}
	for k := 0; k < 3; k++ {
		for t := 0; t < 12; t++ {
			d.c.Do(Step{Act: "Tick", Node: other})
		}
		d.c.Do(Step{Act: "Campaign", Node: other})
		d.with(p, 25)
	}
	d.unfreeze()
	p.Tick = 8
	d.with(p, 80)
	for k := 0; k < 4; k++ {
		d.reportStaleSnapshots()
		d.with(p, 20)
	}
}

// an asynchronous follower falls behind and two snapshots race at it (see scTwoSnapshotsRacing)
func scSnapshotRace(d *Driver) {
	l := d.elect(300)
	if l == nil {
		return
	}
	var cand []uint64
	for _, id := range d.others(l.ID) {
		if d.c.Nodes[id].Cfg.Async && hasVoter(l, id) {
			cand = append(cand, id)
		}
	}
	if len(cand) == 0 || len(d.others(l.ID)) < 2 {
		d.settle(100)
		return
	}
	d.propose(l, 1+d.r.Intn(2), false)
	d.settle(20 + d.r.Intn(30))
	if d.c.up(l.ID) == nil || !safeIsLeader(l.RN) {
		d.settle(100)
		return
	}
	if pct(d.r, 35) {
		scAppendHeldOverCompaction(d, l, d.pick(d.others(l.ID)))
		return
	}
	scTwoSnapshotsRacing(d, l, d.pick(cand))
}

// a follower that was cut off is caught up from the leader's *stable* log; that append is still travelling
// when the leader's application snapshots and compacts at an index inside it (entries handed out by
// Storage.Entries must stay what they were)
func scAppendHeldOverCompaction(d *Driver, l *AppNode, f uint64) {
	d.frozenApply[f] = false
	d.runNode(f)
	d.isolate([]uint64{f})
	d.dropWhere(func(m *pb.Message) bool { return m.GetTo() == f || m.GetFrom() == f })
	d.propose(l, 3+d.r.Intn(3), false)
	d.waitFor(60, func() bool {
		st, perr := safeState(l.RN)
		return perr != "" || (st.Commit == st.LastIndex && st.Applied == st.Commit)
	})
	if d.c.up(l.ID) == nil || !safeIsLeader(l.RN) {
		d.heal()
		d.settle(100)
		return
	}
	d.holdIf = func(m *pb.Message) bool { return m.GetType() == pb.MsgApp && m.GetTo() == f && len(m.GetEntries()) > 0 }
	d.heal()
	onWire := func() bool {
		for _, nm := range d.c.Net {
			if d.holdIf != nil && d.holdIf(nm.M) && len(nm.M.GetEntries()) > 1 {
				return true
			}
		}
		return false
	}
	p := calm
	p.Tick, p.Propose = 0, 0
	for k := 0; k < 25 && !onWire(); k++ {
		d.c.Do(Step{Act: "Tick", Node: l.ID})
		d.with(p, 12)
	}
	dbg("held-append: catch-up append on the wire:", onWire())
	if lo, hi := d.c.snapBounds(l); hi >= lo && hi > 1 {
		k := hi
		if hi > lo {
			k = lo + uint64(d.r.Intn(int(hi-lo)+1))
		}
		if d.c.Do(Step{Act: "Snapshot", Node: l.ID, K: k}) {
			d.c.Do(Step{Act: "Compact", Node: l.ID, K: k})
		}
	}
	d.with(p, 6)
	d.releaseHolds()
	p.Tick = 8
	d.with(p, 80)
	d.settle(60)
}

// two snapshots race at an asynchronous follower: the write of snapshot A is with f's (slow) append thread
// when the leader, which has compacted again, sends the newer snapshot B; f accepts B, and only then is the
// write of A carried out and acknowledged
func scTwoSnapshotsRacing(d *Driver, l *AppNode, f uint64) {
	d.frozenApply[f] = false
	d.runNode(f)
	d.isolate([]uint64{f})
	d.dropWhere(func(m *pb.Message) bool { return m.GetTo() == f || m.GetFrom() == f })
	caughtUp := func() bool {
		st, perr := safeState(l.RN)
		return perr != "" || (st.Commit == st.LastIndex && st.Applied == st.Commit)
	}
	compact := func() {
		if _, hi := d.c.snapBounds(l); hi > 1 {
			if d.c.Do(Step{Act: "Snapshot", Node: l.ID, K: hi}) {
				d.c.Do(Step{Act: "Compact", Node: l.ID, K: hi})
			}
		}
	}
	snapOnWire := func() bool {
		for _, nm := range d.c.Net {
			if nm.M.GetType() == pb.MsgSnap && nm.M.GetTo() == f {
				return true
			}
		}
		return false
	}
	d.propose(l, 2+d.r.Intn(3), false)
	d.waitFor(60, caughtUp)
	if d.c.up(l.ID) == nil || !safeIsLeader(l.RN) {
		d.heal()
		d.settle(100)
		return
	}
	compact()
	d.heal()
	d.holdTypes[pb.MsgSnap] = true
	p := calm
	p.Tick = 0
	for k := 0; k < 25 && !snapOnWire(); k++ {
		d.c.Do(Step{Act: "Tick", Node: l.ID})
		d.with(p, 12)
		d.reportStaleSnapshots()
	}
	d.frozenAppend[f] = true
	d.releaseHolds()
	d.deliverSel(MsgSel{Type: "Snap", To: f})
	d.pipeline(f)
	queued := func() bool {
		n := d.c.up(f)
		if n == nil {
			return true
		}
		for _, m := range n.AppendQ {
			if m.GetSnapshot() != nil && m.GetSnapshot().GetMetadata().GetIndex() > 0 {
				return true
			}
		}
		return false
	}
	dbg("two-snapshots: first snapshot write queued at f:", queued())
	// the group moves on without f's acknowledgements and the leader compacts again
	d.propose(l, 2+d.r.Intn(4), false)
	d.waitFor(60, caughtUp)
	if d.c.up(l.ID) == nil || !safeIsLeader(l.RN) {
		d.unfreeze()
		d.settle(100)
		return
	}
	compact()
	d.dropWhere(func(m *pb.Message) bool { return m.GetType() == pb.MsgSnap && m.GetTo() == f })
	d.holdTypes[pb.MsgSnap] = true
	d.c.Do(Step{Act: "ReportSnapshot", Node: l.ID, To: f, Ok: pct(d.r, 60)})
	for k := 0; k < 25 && !snapOnWire(); k++ {
		d.c.Do(Step{Act: "Tick", Node: l.ID})
		d.with(p, 12)
	}
	// f takes the newer snapshot; in most runs its raft loop does not get to hand it on before the
	// acknowledgement of the older one comes back
	d.frozenReady[f] = pct(d.r, 70)
	d.releaseHolds()
	got := d.deliverSel(MsgSel{Type: "Snap", To: f})
	dbg("two-snapshots: second snapshot delivered:", got, "ready frozen:", d.frozenReady[f])
	if !d.frozenReady[f] && pct(d.r, 50) {
		d.pipeline(f)
	}
	d.frozenAppend[f] = false
	d.c.Do(Step{Act: "AppendThread", Node: f})
	d.unfreeze()
	p.Tick = 8
	d.with(p, 80)
	for k := 0; k < 4; k++ {
		d.reportStaleSnapshots()
		d.with(p, 20)
	}
}

// a configuration change is committed at follower f and handed to its (slow) apply thread; a second change
// of the same member follows while f is cut off; the leader compacts and f is caught up by a snapshot
// that already contains both - and only then f's apply thread gets to the first change
func scApplyVsSnapshot(d *Driver, l *AppNode, f uint64) {
	var x uint64
	for _, id := range d.others(l.ID) {
		if id != f && hasVoter(l, id) {
			x = id
		}
	}
	if x == 0 {
		d.settle(100)
		return
	}
	d.frozenApply[f] = true
	kind := []string{"v1", "auto"}[d.r.Intn(2)]
	if d.c.Do(Step{Act: "ProposeConfChange", Node: l.ID, Pid: d.nextPid, CC: fmt.Sprintf("%s:l%d", kind, x)}) {
		d.nextPid++
	}
	// until f knows the change is committed (it sits in f's apply queue)
	d.waitFor(60, func() bool {
		n := d.c.up(f)
		if n == nil {
			return true
		}
		for _, m := range n.ApplyQ {
			for _, e := range m.GetEntries() {
				if e.GetType() != pb.EntryNormal {
					return true
				}
			}
		}
		return false
	})
	d.isolate([]uint64{f})
	if ld := d.c.up(l.ID); ld != nil && safeIsLeader(ld.RN) {
		if d.c.Do(Step{Act: "ProposeConfChange", Node: l.ID, Pid: d.nextPid, CC: fmt.Sprintf("%s:v%d", kind, x)}) {
			d.nextPid++
		}
		d.settle(40)
		d.propose(ld, 1+d.r.Intn(2), false)
		d.waitFor(40, func() bool {
			st, perr := safeState(ld.RN)
			return perr != "" || (st.Commit == st.LastIndex && st.Applied == st.Commit)
		})
		if _, hi := d.c.snapBounds(ld); hi > 1 {
			if d.c.Do(Step{Act: "Snapshot", Node: ld.ID, K: hi}) {
				d.c.Do(Step{Act: "Compact", Node: ld.ID, K: hi})
			}
		}
	}
	d.heal()
	p := calm
	p.Tick = 10
	d.waitFor(60, func() bool {
		d.reportStaleSnapshots()
		n := d.c.up(f)
		return n == nil || jNode(n.RN).USnap.Has || jNode(n.RN).Commit >= jNode(l.RN).Commit
	})
	d.with(p, 10+d.r.Intn(20))
	d.unfreeze()
	for k := 0; k < 6; k++ {
		d.with(p, 20)
		d.reportStaleSnapshots()
	}
	d.settle(60)
}

// three leaderships: a's uncommitted entries (term T) survive and are committed by a in term T+2,
// while b, elected in between (term T+1), holds an uncommitted tail of a higher term over the same
// indexes; a compacts and b is caught up by a snapshot whose term is lower than b's last term
func dbg(a ...interface{}) {
	if os.Getenv("VERIF_DEBUG_SC") != "" {
		fmt.Fprintln(os.Stderr, a...)
	}
}

func scHigherTermTail(d *Driver, a *AppNode) {
	oth := d.others(a.ID)
	b, v := oth[0], oth[1]
	if pct(d.r, 50) {
		b, v = v, b
	}
	d.isolate([]uint64{a.ID})
	d.propose(a, 2+d.r.Intn(3), false)
	d.runNode(a.ID)
	// b wins with v's vote; nothing b appends reaches v
	d.holdTypes[pb.MsgApp], d.holdTypes[pb.MsgHeartbeat] = true, true
	p := calm
	p.Tick = 0
	idxT := uint64(0)
	if st, perr := safeState(a.RN); perr == "" {
		idxT = st.LastIndex
	}
	othLeader := func() uint64 {
		for _, id := range oth {
			if n := d.c.up(id); n != nil && safeIsLeader(n.RN) {
				return id
			}
		}
		return 0
	}
	for k := 0; k < 12 && othLeader() == 0; k++ {
		for t := 0; t < 12 && othLeader() == 0; t++ {
			d.c.Do(Step{Act: "Tick", Node: b})
			d.c.Do(Step{Act: "Tick", Node: v})
			d.with(p, 6)
		}
		if othLeader() == 0 {
			d.c.Do(Step{Act: "Campaign", Node: b})
			d.with(p, 25)
		}
	}
	if w := othLeader(); w == v {
		b, v = v, b
	}
	nb := d.c.up(b)
	dbg("b leader?", nb != nil && safeIsLeader(nb.RN))
	if nb == nil || !safeIsLeader(nb.RN) {
		d.releaseHolds()
		d.heal()
		d.settle(60)
		return
	}
	d.propose(nb, 3+d.r.Intn(3), false)
	d.runNode(b)
	d.isolate([]uint64{b})
	d.blocked[[2]uint64{a.ID, v}], d.blocked[[2]uint64{v, a.ID}] = false, false
	for _, nm := range append([]*NetMsg(nil), d.c.Net...) {
		if nm.M.GetFrom() == b || nm.M.GetTo() == b {
			d.c.Do(Step{Act: "Drop", Mid: nm.Mid})
		}
	}
	d.releaseHolds()
	// a learns of the higher term from v, steps down and wins again (its log is longer than v's)
	p.Tick = 30
	for k := 0; k < 20; k++ {
		if ld := d.c.up(a.ID); ld != nil && safeIsLeader(ld.RN) {
			if st, perr := safeState(ld.RN); perr == "" {
				if sb, perr2 := safeState(nb.RN); perr2 == "" && st.Term > sb.Term {
					break
				}
			}
		}
		d.with(p, 20)
	}
	na := d.c.up(a.ID)
	dbg("a leader again?", na != nil && safeIsLeader(na.RN))
	if na == nil || !safeIsLeader(na.RN) {
		d.heal()
		d.settle(80)
		return
	}
	d.propose(na, 1+d.r.Intn(2), false)
	d.settle(40 + d.r.Intn(30))
	// the snapshot ends inside a's old-term entries, where b holds different entries of a higher term
	if lo, hi := d.c.snapBounds(na); idxT >= lo && idxT <= hi && pct(d.r, 80) {
		k := idxT
		if k > lo && pct(d.r, 30) {
			k--
		}
		if d.c.Do(Step{Act: "Snapshot", Node: na.ID, K: k}) {
			d.c.Do(Step{Act: "Compact", Node: na.ID, K: k})
		}
	} else {
		d.snapCompact(na)
	}
	d.holdTypes[pb.MsgSnap] = pct(d.r, 30)
	d.heal()
	d.settle(60 + d.r.Intn(40))
	d.releaseHolds()
	d.settle(80)
}

// membership changes are committed while one node's application lags; that
// node (with a stale configuration) is then pushed to campaign
func scConfLaggingApplier(d *Driver) {
	l := d.elect(300)
	if l == nil {
		return
	}
	oth := d.others(l.ID)
	if len(oth) == 0 {
		return
	}
	x := d.pick(oth)
	for _, id := range d.c.IDs { // start joiners
		if !d.c.Nodes[id].Created {
			d.c.Do(Step{Act: "Boot", Node: id})
		}
	}
	d.settle(10)
	// node x stops applying (its application lags) but keeps persisting and acknowledging
	if d.c.Nodes[x].Cfg.Async {
		d.frozenApply[x] = true
	} else {
		// sync mode: it holds on to one accepted Ready
		d.frozenReady[x] = true
	}
	if pct(d.r, 50) { // a backlog of ordinary entries in front of the conf change
		d.propose(l, 2+d.r.Intn(4), pct(d.r, 50))
		d.settle(20)
	}
	joiners := []uint64{}
	for _, id := range d.c.IDs {
		if !d.c.Nodes[id].Cfg.Initial {
			joiners = append(joiners, id)
		}
	}
	switch v := d.r.Intn(10); {
	case v < 4 && len(joiners) >= 2 && len(oth) >= 2:
		scTwoChangesBehind(d, l, x, joiners)
		return
	case v < 6:
		scOwnRemovalPending(d, l, x)
		return
	case v < 8 && len(joiners) >= 2 && len(oth) >= 2:
		d.unfreeze()
		scJointHalves(d, l, joiners)
		return
	}
	nChanges := 1 + d.r.Intn(3)
	for k := 0; k < nChanges; k++ {
		ld := d.leader()
		if ld == nil {
			break
		}
		ccs := d.ccCandidates()
		cc := ccs[d.r.Intn(len(ccs))]
		if k < len(joiners) && pct(d.r, 75) { // prefer growing the group, one voter at a time
			cc = fmt.Sprintf("%s:v%d", []string{"auto", "v1", "auto", "explicit"}[d.r.Intn(4)], joiners[k])
		}
		if d.c.Do(Step{Act: "ProposeConfChange", Node: ld.ID, Pid: d.nextPid, CC: cc}) {
			d.nextPid++
		}
		d.settle(40 + d.r.Intn(50))
		d.maintainSnapshots()
		d.settle(30 + d.r.Intn(30))
		if pct(d.r, 40) {
			d.propose(ld, 1, false)
		}
		if pct(d.r, 30) {
			if d.c.Do(Step{Act: "ProposeConfChange", Node: ld.ID, Pid: d.nextPid, CC: "leave"}) {
				d.nextPid++
			}
			d.settle(20)
		}
	}
	if !d.c.Nodes[x].Cfg.Async && pct(d.r, 60) {
		// sync mode: x takes one Ready (the committed entries are handed out) but does not apply yet
		d.frozenReady[x] = false
		d.c.Do(Step{Act: "Ready", Node: x})
		d.frozenReady[x] = true
	}
	// x and some of the old members are cut off from the rest; x is pushed to campaign
	side := []uint64{x}
	for _, o := range d.others(x) {
		if d.c.Nodes[o].Cfg.Initial && o != l.ID && pct(d.r, 70) {
			side = append(side, o)
		}
	}
	if pct(d.r, 75) {
		d.isolate(side)
	}
	if ld := d.leader(); ld != nil && pct(d.r, 60) {
		d.propose(ld, 1+d.r.Intn(2), false)
		d.with(calm, 20+d.r.Intn(30))
	}
	for k := 0; k < 1+d.r.Intn(3); k++ {
		if pct(d.r, 50) {
			d.c.Do(Step{Act: "Campaign", Node: x})
		} else {
			for t := 0; t < 12; t++ {
				d.c.Do(Step{Act: "Tick", Node: x})
			}
		}
		p := calm
		p.Propose, p.Campaign, p.Tick = 5, 1, 8
		d.with(p, 30+d.r.Intn(40))
	}
	for _, n := range d.upNodes() {
		if safeIsLeader(n.RN) {
			d.propose(n, 1+d.r.Intn(2), false)
		}
	}
	d.with(calm, 40)
	d.unfreeze()
	d.heal()
	d.settle(120)
}

// waitFor runs the calm driver until cond holds (bounded).
func (d *Driver) waitFor(max int, cond func() bool) bool {
	for k := 0; k < max; k++ {
		if cond() {
			return true
		}
		d.with(calm, 2)
		d.maintainSnapshots()
		if k%4 == 3 {
			d.reportStaleSnapshots()
		}
	}
	return cond()
}

func hasVoter(n *AppNode, id uint64) bool {
	if n == nil || n.RN == nil {
		return false
	}
	st, perr := safeState(n.RN)
	if perr != "" {
		return false
	}
	for _, v := range st.ConfState.GetVoters() {
		if v == id {
			return true
		}
	}
	return false
}

// x's application lags while the group grows by two voters, one change at a time; x and the other old
// follower are then cut off from the (new) majority, which goes on committing; x is pushed to campaign
func scTwoChangesBehind(d *Driver, l *AppNode, x uint64, joiners []uint64) {
	var o uint64
	for _, id := range d.others(l.ID) {
		if id != x && d.c.Nodes[id].Cfg.Initial {
			o = id
		}
	}
	for k := 0; k < 2; k++ {
		j := joiners[k]
		kind := []string{"auto", "v1"}[d.r.Intn(2)]
		if d.c.Do(Step{Act: "ProposeConfChange", Node: l.ID, Pid: d.nextPid, CC: fmt.Sprintf("%s:v%d", kind, j)}) {
			d.nextPid++
		}
		if !d.waitFor(80, func() bool { return hasVoter(d.c.up(l.ID), j) && hasVoter(d.c.up(j), j) }) {
			dbg("two-behind: change", k, "did not get through: leader has it", hasVoter(d.c.up(l.ID), j), "joiner has it", hasVoter(d.c.up(j), j), "leader up", d.c.up(l.ID) != nil, "joiner up", d.c.up(j) != nil)
			for _, n := range d.upNodes() {
				if st, perr := safeState(n.RN); perr == "" {
					dbg("     node", n.ID, st.State, "term", st.Term, "commit", st.Commit, "applied", st.Applied, "last", st.LastIndex, "voters", st.ConfState.GetVoters(), "prs", fmt.Sprint(st.Progress))
				}
			}
			d.unfreeze()
			d.settle(100)
			return
		}
	}
	d.settle(20)
	dbg("two-behind: grown; x", x, "o", o, "async", d.c.Nodes[x].Cfg.Async)
	if !d.c.Nodes[x].Cfg.Async {
		// sync mode: x takes one Ready (the committed entries are handed out) but does not apply yet
		d.frozenReady[x] = false
		d.c.Do(Step{Act: "Ready", Node: x})
		d.frozenReady[x] = true
	}
	if st, perr := safeState(d.c.Nodes[x].RN); perr == "" {
		dbg("   x applied", st.Applied, "applying", st.Applying, "commit", st.Commit, "voters", st.ConfState.GetVoters())
	}
	side := []uint64{x}
	if o != 0 {
		side = append(side, o)
	}
	d.isolate(side)
	if ld := d.c.up(l.ID); ld != nil && safeIsLeader(ld.RN) {
		d.propose(ld, 1+d.r.Intn(2), false)
		d.with(calm, 30+d.r.Intn(30))
	}
	if pct(d.r, 50) {
		// an election among the new majority at the same time
		d.c.Do(Step{Act: "Campaign", Node: joiners[d.r.Intn(2)]})
	}
	d.c.Do(Step{Act: "Campaign", Node: x})
	p := calm
	p.Tick = 2
	d.with(p, 40+d.r.Intn(30))
	for _, n := range d.upNodes() {
		if safeIsLeader(n.RN) {
			d.propose(n, 1+d.r.Intn(2), false)
		}
	}
	for _, n := range d.upNodes() {
		if st, perr := safeState(n.RN); perr == "" {
			dbg("   after campaign: node", n.ID, st.State, "term", st.Term, "commit", st.Commit, "last", st.LastIndex, "voters", st.ConfState.GetVoters())
		}
	}
	d.with(p, 40)
	d.unfreeze()
	d.with(p, 30)
	d.heal()
	d.settle(120)
}

// an explicit joint configuration (two old members replaced by two new ones) stays in force while the
// group is split along the two halves: the new members can reach a majority of the incoming voters only,
// the old members a majority of the outgoing voters only; both sides campaign and propose
func scJointHalves(d *Driver, l *AppNode, joiners []uint64) {
	var olds []uint64
	for _, id := range d.others(l.ID) {
		if d.c.Nodes[id].Cfg.Initial {
			olds = append(olds, id)
		}
	}
	if len(olds) < 2 {
		d.settle(100)
		return
	}
	j1, j2 := joiners[0], joiners[1]
	cc := fmt.Sprintf("explicit:v%d v%d r%d r%d", j1, j2, olds[0], olds[1])
	if d.c.Do(Step{Act: "ProposeConfChange", Node: l.ID, Pid: d.nextPid, CC: cc}) {
		d.nextPid++
	}
	joint := func(n *AppNode) bool {
		if n == nil || n.RN == nil {
			return false
		}
		st, perr := safeState(n.RN)
		return perr == "" && len(st.ConfState.GetVotersOutgoing()) > 0
	}
	if !d.waitFor(100, func() bool { return joint(d.c.up(l.ID)) && joint(d.c.up(j1)) && joint(d.c.up(j2)) }) {
		d.settle(120)
		return
	}
	d.settle(20)
	// the leader stays with the old members; the new members are on their own
	d.isolate([]uint64{j1, j2})
	p := calm
	p.Tick = 4
	for k := 0; k < 3; k++ {
		for t := 0; t < 12; t++ {
			d.c.Do(Step{Act: "Tick", Node: j1})
			d.c.Do(Step{Act: "Tick", Node: j2})
		}
		d.c.Do(Step{Act: "Campaign", Node: []uint64{j1, j2}[d.r.Intn(2)]})
		d.with(p, 30)
		if n := d.c.up(l.ID); n != nil && safeIsLeader(n.RN) && pct(d.r, 50) {
			d.propose(n, 1, false)
		}
	}
	for _, n := range d.upNodes() {
		if safeIsLeader(n.RN) {
			d.propose(n, 1, false)
		}
	}
	d.with(p, 40)
	d.heal()
	d.settle(60)
	if ld := d.leader(); ld != nil {
		if d.c.Do(Step{Act: "ProposeConfChange", Node: ld.ID, Pid: d.nextPid, CC: "leave"}) {
			d.nextPid++
		}
	}
	d.settle(100)
}

// a change that removes x is committed and handed to x's application, which has not applied it yet
// when x is pushed to campaign; the application then catches up and the votes arrive
func scOwnRemovalPending(d *Driver, l *AppNode, x uint64) {
	kind := []string{"auto", "v1", "explicit"}[d.r.Intn(3)]
	if d.c.Do(Step{Act: "ProposeConfChange", Node: l.ID, Pid: d.nextPid, CC: fmt.Sprintf("%s:r%d", kind, x)}) {
		d.nextPid++
	}
	d.settle(40 + d.r.Intn(30))
	if !d.c.Nodes[x].Cfg.Async {
		d.frozenReady[x] = false
		d.c.Do(Step{Act: "Ready", Node: x})
		d.frozenReady[x] = true
	}
	d.holdTypes[pb.MsgVoteResp], d.holdTypes[pb.MsgPreVoteResp] = true, pct(d.r, 50)
	if pct(d.r, 50) {
		d.c.Do(Step{Act: "Campaign", Node: x})
	} else {
		for t := 0; t < 12; t++ {
			d.c.Do(Step{Act: "Tick", Node: x})
		}
	}
	show := func(tag string) {
		if n := d.c.up(x); n != nil {
			if st, perr := safeState(n.RN); perr == "" {
				dbg(tag, "x", x, st.State, "term", st.Term, "commit", st.Commit, "applying", st.Applying, "applied", st.Applied, "voters", st.ConfState.GetVoters(), "net", len(d.c.Net))
			}
		}
	}
	show("own-removal: campaigned")
	d.with(calm, 20+d.r.Intn(20))
	show("own-removal: votes held")
	d.unfreeze()
	d.runNode(x)
	show("own-removal: applied")
	d.releaseHolds()
	d.with(calm, 60)
	show("own-removal: end")
	d.settle(80)
}

// asynchronous storage writes with a stalled append (or apply) thread, repeated
// traffic to the stalled node, then a crash before the thread catches up
func scDiskStall(d *Driver) {
	l := d.elect(300)
	if l == nil {
		return
	}
	oth := d.others(l.ID)
	if len(oth) == 0 {
		return
	}
	f := d.pick(oth)
	if len(oth) >= 2 && pct(d.r, 45) {
		scStalledLeaderDeposed(d, l, f)
		return
	}
	victim := f
	if pct(d.r, 25) {
		victim = l.ID
	}
	d.settle(20)
	d.frozenAppend[victim] = true
	if pct(d.r, 30) {
		d.frozenApply[victim] = true
	}
	if len(oth) >= 2 && pct(d.r, 60) { // the third node does not help the leader commit
		for _, o := range oth {
			if o != f {
				d.isolate([]uint64{o})
				break
			}
		}
	}
	p := calm
	p.Dup, p.Propose, p.Tick, p.Campaign = 12, 8, 12, 1
	d.propose(l, 1+d.r.Intn(3), pct(d.r, 30))
	d.with(p, 40+d.r.Intn(60))
	if pct(d.r, 70) {
		if pct(d.r, 50) && len(d.c.Nodes[victim].AppendQ) > 0 {
			d.c.Do(Step{Act: "CrashInAppend", Node: victim, K: uint64(d.r.Intn(2))})
		} else {
			d.c.Do(Step{Act: "Crash", Node: victim, Ok: pct(d.r, 70)})
		}
		d.unfreeze()
		d.with(p, 10+d.r.Intn(20))
		n := d.c.Nodes[victim]
		lo, hi := d.c.RestartRange(n)
		a := lo
		if hi > lo {
			a += uint64(d.r.Intn(int(hi-lo) + 1))
		}
		d.c.Do(Step{Act: "Restart", Node: victim, Applied: a})
	}
	d.unfreeze()
	d.heal()
	if pct(d.r, 60) { // now the old leader is cut off and the others elect
		d.isolate([]uint64{l.ID})
		p.Tick = 30
		d.with(p, 80+d.r.Intn(80))
		if l2 := d.leader(); l2 != nil {
			d.propose(l2, 2, false)
		}
		d.heal()
	}
	d.with(p, 80)
}

// the leader's storage writes are stalled while it accepts several proposals; only a prefix of them
// reaches one follower, which is then elected and overwrites the rest while the old leader's write
// of the original entries is still queued; that write is then carried out and the node crashes
func scStalledLeaderDeposed(d *Driver, l *AppNode, nl uint64) {
	d.settle(20)
	d.frozenAppend[l.ID] = true
	k := 2 + d.r.Intn(3)
	for i := 0; i < k; i++ {
		if d.c.Do(Step{Act: "Propose", Node: l.ID, Pid: d.nextPid, Psz: []int{0, 5, 12}[d.r.Intn(3)]}) {
			d.nextPid++
		}
		if pct(d.r, 25) {
			d.pipeline(l.ID)
		}
	}
	d.pipeline(l.ID)
	// the first append reaches the future leader, everything else the old leader sent is lost
	keep := 1 + d.r.Intn(2)
	for i := 0; i < keep; i++ {
		d.deliverSel(MsgSel{Type: "App", From: l.ID, To: nl})
	}
	d.isolate([]uint64{l.ID})
	for _, nm := range append([]*NetMsg(nil), d.c.Net...) {
		if nm.M.GetFrom() == l.ID {
			d.c.Do(Step{Act: "Drop", Mid: nm.Mid})
		}
	}
	d.runNode(nl)
	for i := 0; i < 12 && !safeIsLeader(d.c.Nodes[nl].RN); i++ {
		for t := 0; t < 12 && i%3 == 0; t++ {
			for _, o := range d.others(l.ID) {
				d.c.Do(Step{Act: "Tick", Node: o})
			}
		}
		if d.c.up(nl) == nil {
			break
		}
		d.c.Do(Step{Act: "Campaign", Node: nl})
		d.with(calm, 25)
	}
	if n := d.c.up(nl); n != nil && safeIsLeader(n.RN) && pct(d.r, 50) {
		d.propose(n, 1, false)
	}
	d.heal()
	d.with(calm, 15+d.r.Intn(25)) // the old leader (writes still stalled) is overwritten
	d.frozenAppend[l.ID] = false
	if n := d.c.up(l.ID); n != nil && len(n.AppendQ) > 0 {
		nw := 1 + d.r.Intn(2)
		for i := 0; i < nw && len(n.AppendQ) > 0; i++ {
			d.c.Do(Step{Act: "AppendThread", Node: l.ID})
		}
		if pct(d.r, 80) {
			d.c.Do(Step{Act: "Crash", Node: l.ID, Ok: false})
			d.with(calm, 10)
			lo, hi := d.c.RestartRange(d.c.Nodes[l.ID])
			a := lo
			if hi > lo {
				a += uint64(d.r.Intn(int(hi-lo) + 1))
			}
			d.c.Do(Step{Act: "Restart", Node: l.ID, Applied: a})
		}
	}
	d.unfreeze()
	d.settle(100)
}

// competing candidates, duplicated and delayed vote traffic, voters crashing
// around the persistence of their vote
func scVoteRace(d *Driver) {
	ups := d.upNodes()
	if len(ups) < 2 {
		return
	}
	allPreVote := true
	for _, n := range ups {
		if !n.Cfg.PreVote || !n.Cfg.Initial {
			allPreVote = false
		}
	}
	if allPreVote && len(ups) == 3 && pct(d.r, 90) {
		scLateVote(d, ups)
	}
	if pct(d.r, 50) {
		if l := d.elect(200); l != nil && pct(d.r, 50) {
			d.propose(l, 1+d.r.Intn(2), false)
			d.with(calm, 5+d.r.Intn(30))
		}
	}
	for round := 0; round < 2+d.r.Intn(3); round++ {
		ups = d.upNodes()
		if len(ups) == 0 {
			break
		}
		a := ups[d.r.Intn(len(ups))]
		b := ups[d.r.Intn(len(ups))]
		if pct(d.r, 40) {
			d.isolate([]uint64{a.ID})
			for t := 0; t < 8+d.r.Intn(8); t++ {
				d.c.Do(Step{Act: "Tick", Node: a.ID})
			}
			d.pipeline(a.ID)
			d.heal()
		}
		d.c.Do(Step{Act: "Campaign", Node: a.ID})
		if pct(d.r, 70) {
			d.c.Do(Step{Act: "Campaign", Node: b.ID})
		}
		p := calm
		p.Dup, p.Crash, p.Restart, p.CrashInAppend, p.Tick, p.Drop = 15, 4, 8, 4, 4, 2
		d.with(p, 30+d.r.Intn(50))
		if l := d.leader(); l != nil && pct(d.r, 50) {
			d.propose(l, 1, false)
		}
	}
	p := calm
	p.Restart = 10
	d.with(p, 80)
}

// PreVote: two candidates of the same term; the third node learns that term from a rejected pre-vote
// (without voting), then grants its vote - a HardState change of the vote alone -, crashes before
// anything else is written, and is asked for its vote in that term again
func scLateVote(d *Driver, ups []*AppNode) {
	d.r.Shuffle(len(ups), func(i, j int) { ups[i], ups[j] = ups[j], ups[i] })
	c1, c2, v := ups[0].ID, ups[1].ID, ups[2].ID
	dbg("late-vote: candidates", c1, c2, "voter", v)
	d.loseUnsynced = true
	d.holdTypes[pb.MsgVote] = true
	for _, c := range []uint64{c1, c2} {
		d.c.Do(Step{Act: "Campaign", Node: c})
		d.runNode(c)
		d.deliverSel(MsgSel{Type: "PreVote", From: c, To: v})
		d.runNode(v)
		d.deliverSel(MsgSel{Type: "PreVoteResp", From: v, To: c})
		d.runNode(c)
	}
	d.dropWhere(func(m *pb.Message) bool { return m.GetType() == pb.MsgPreVote || m.GetType() == pb.MsgPreVoteResp })
	// v's own pre-campaign is turned down by a candidate that is already in the new term
	d.c.Do(Step{Act: "Campaign", Node: v})
	d.runNode(v)
	d.deliverSel(MsgSel{Type: "PreVote", From: v, To: c1})
	d.runNode(c1)
	d.deliverSel(MsgSel{Type: "PreVoteResp", From: c1, To: v})
	d.runNode(v)
	d.dropWhere(func(m *pb.Message) bool { return m.GetType() == pb.MsgPreVote || m.GetType() == pb.MsgPreVoteResp })
	// the delayed vote request of the first candidate
	d.deliverSel(MsgSel{Type: "Vote", From: c1, To: v})
	d.runNode(v)
	d.deliverSel(MsgSel{Type: "VoteResp", From: v, To: c1})
	d.runNode(c1)
	if pct(d.r, 85) {
		d.c.Do(Step{Act: "Crash", Node: v, Ok: true})
		lo, _ := d.c.RestartRange(d.c.Nodes[v])
		d.c.Do(Step{Act: "Restart", Node: v, Applied: lo})
	}
	// ... and that of the second
	d.deliverSel(MsgSel{Type: "Vote", From: c2, To: v})
	d.runNode(v)
	d.deliverSel(MsgSel{Type: "VoteResp", From: v, To: c2})
	d.runNode(c2)
	d.releaseHolds()
	d.with(calm, 40)
}

// small apply budgets, mixed entry sizes, persistence lagging behind commit
func scPagination(d *Driver) {
	l := d.elect(300)
	if l == nil {
		return
	}
	d.wholePct = 30             // interleave deliveries with the sub-steps of Ready handling
	mixed := func(n *AppNode) { // small, BIG, small ... : entry sizes straddle the limits
		for k := 0; k < 2+d.r.Intn(3); k++ {
			psz := 0
			if k%2 == 1 || pct(d.r, 30) {
				psz = 30 + d.r.Intn(100)
			}
			if d.c.up(n.ID) != nil && d.c.Do(Step{Act: "Propose", Node: n.ID, Pid: d.nextPid, Psz: psz}) {
				d.nextPid++
			}
			if pct(d.r, 60) {
				d.with(calm, 2+d.r.Intn(8))
			}
		}
	}
	for round := 0; round < 2+d.r.Intn(3); round++ {
		ld := d.leader()
		if ld == nil {
			break
		}
		f := d.pick(d.others(ld.ID))
		if f == 0 {
			break
		}
		switch d.r.Intn(3) {
		case 0:
			// f persists entries of mixed size without learning that they are committed, is cut
			// off, and on reconnect handles the append with the newer entry and commit index
			// before its next Ready
			d.holdTypes[pb.MsgHeartbeat] = true
			mixed(ld)
			d.with(calm, 10+d.r.Intn(25))
			d.isolate([]uint64{f})
			d.releaseHolds()
			d.with(calm, 20+d.r.Intn(20))
			d.propose(ld, 1+d.r.Intn(2), false)
			d.with(calm, 20+d.r.Intn(20))
			d.frozenReady[f] = pct(d.r, 70)
			d.frozenAppend[f] = d.frozenReady[f] && pct(d.r, 50)
			d.heal()
			d.with(calm, 10+d.r.Intn(30))
		case 1:
			// f lags; the leader's newest entries are not yet stable (slow disk) when it
			// catches f up from the stable part of its log
			d.isolate([]uint64{f})
			mixed(ld)
			d.with(calm, 30+d.r.Intn(30))
			d.frozenAppend[ld.ID] = true
			d.frozenReady[ld.ID] = !ld.Cfg.Async && pct(d.r, 50)
			d.propose(ld, 1+d.r.Intn(2), false)
			d.heal()
			p := calm
			p.Tick = 15
			d.with(p, 30+d.r.Intn(40))
		default:
			mixed(ld)
			d.with(calm, 20+d.r.Intn(40))
		}
		d.unfreeze()
		d.with(calm, 30+d.r.Intn(30))
	}
	d.unfreeze()
	d.releaseHolds()
	d.wholePct = 75
	d.settle(100)
}

// leadership transfer to up-to-date and lagging nodes, with the MsgTimeoutNow
// delayed past the transfer timeout
func scTransfer(d *Driver) {
	l := d.elect(300)
	if l == nil {
		return
	}
	oth := d.others(l.ID)
	if len(oth) == 0 {
		return
	}
	t := d.pick(oth)
	d.propose(l, 1+d.r.Intn(2), false)
	d.settle(30)
	if len(oth) >= 2 && pct(d.r, 50) {
		// a transfer to a lagging node is pending while an automatically-left joint change commits
		// and is applied; the transfer is never completed and ends by its timeout
		var x uint64
		for _, id := range oth {
			if id != t {
				x = id
			}
		}
		cc := []string{fmt.Sprintf("implicit:l%d", x), fmt.Sprintf("auto:l%d v%d", x, x), fmt.Sprintf("implicit:v%d", x)}[d.r.Intn(3)]
		d.blocked[[2]uint64{l.ID, t}] = true
		if d.c.Do(Step{Act: "ProposeConfChange", Node: l.ID, Pid: d.nextPid, CC: cc}) {
			d.nextPid++
		}
		d.propose(l, 1, false)
		d.c.Do(Step{Act: "TransferLeader", Node: l.ID, To: t})
		p := calm
		p.Tick = 2
		d.with(p, 60+d.r.Intn(40))
		p.Tick = 25
		d.with(p, 40+d.r.Intn(40))
		d.heal()
		d.with(calm, 30)
		return
	}
	hold := pct(d.r, 60)
	if hold {
		d.blocked[[2]uint64{l.ID, t}] = true // TimeoutNow stays in the network
	}
	d.c.Do(Step{Act: "TransferLeader", Node: l.ID, To: t})
	d.pipeline(l.ID)
	p := calm
	p.Tick, p.Propose = 25, 4
	givenUp := hold && pct(d.r, 70)
	if givenUp {
		// the transfer is given up after an election timeout; the order to take over is still under way
		for k := 0; k < 7; k++ {
			d.c.Do(Step{Act: "Tick", Node: l.ID})
			d.with(calm, 3)
		}
	}
	d.with(p, 20+d.r.Intn(60))
	if n := d.c.up(l.ID); n != nil && (givenUp || pct(d.r, 70)) {
		d.propose(n, 1+d.r.Intn(2), false)
		d.with(calm, 20+d.r.Intn(30))
	}
	d.heal()
	if hold && (givenUp || pct(d.r, 60)) {
		d.deliverSel(MsgSel{Type: "TimeoutNow", To: t}) // the delayed take-over order arrives first
	}
	p.Dup = 5
	d.with(p, 60+d.r.Intn(60))
	if pct(d.r, 40) {
		if ld := d.leader(); ld != nil {
			d.c.Do(Step{Act: "TransferLeader", Node: ld.ID, To: d.pick(d.others(ld.ID))})
			d.with(p, 60)
		}
	}
}

// read-index requests at every kind of node, around leader changes, partitions
// and membership changes
func scReads(d *Driver) {
	l := d.elect(300)
	if l == nil {
		return
	}
	p := calm
	p.Read, p.Propose, p.Tick = 10, 4, 10
	d.with(p, 40)
	switch d.r.Intn(5) {
	case 0: // deposed leader keeps serving
		d.isolate([]uint64{l.ID})
		p.Tick = 30
		d.with(p, 100+d.r.Intn(80))
		if l2 := d.leader(); l2 != nil && l2.ID != l.ID {
			d.propose(l2, 2, false)
			d.with(p, 30)
		}
		for k := 0; k < 3; k++ {
			d.c.Do(Step{Act: "ReadIndex", Node: l.ID, Rid: d.nextRid})
			d.nextRid++
			d.pipeline(l.ID)
		}
		d.heal()
		if pct(d.r, 60) {
			// the deposed leader catches up and is elected again: what it queued before must not be answered now
			d.settle(50)
			for k := 0; k < 3; k++ {
				if n := d.c.up(l.ID); n == nil || safeIsLeader(n.RN) {
					break
				}
				if l2 := d.leader(); l2 != nil && l2.ID != l.ID {
					d.c.Do(Step{Act: "TransferLeader", Node: l2.ID, To: l.ID})
				} else {
					d.c.Do(Step{Act: "Campaign", Node: l.ID})
				}
				d.settle(40)
			}
			for t := 0; t < 3; t++ {
				d.c.Do(Step{Act: "Tick", Node: l.ID})
				d.settle(15)
			}
		}
	case 1: // shrink the group (possibly removing the leader), then partition and read
		ids := d.c.IDs
		victim := d.pick(ids)
		cc := fmt.Sprintf("auto:r%d", victim)
		if pct(d.r, 40) && len(ids) >= 3 {
			cc = fmt.Sprintf("auto:r%d r%d", victim, d.pick(ids))
		}
		if d.c.Do(Step{Act: "ProposeConfChange", Node: l.ID, Pid: d.nextPid, CC: cc}) {
			d.nextPid++
		}
		if pct(d.r, 60) {
			// cut the leader off at the moment it has committed (and applied) the change, before
			// the followers learn the new commit index
			target := uint64(0)
			if st, perr := safeState(l.RN); perr == "" {
				target = st.LastIndex
			}
			for k := 0; k < 60; k++ {
				st, perr := safeState(l.RN)
				if d.c.up(l.ID) == nil || perr != "" || st.Commit >= target {
					break
				}
				d.with(calm, 1)
			}
			d.runNode(l.ID)
		} else {
			d.with(calm, 5+d.r.Intn(50))
		}
		d.isolate([]uint64{l.ID})
		p.Tick = 30
		d.with(p, 80+d.r.Intn(60))
		if l2 := d.leader(); l2 != nil && l2.ID != l.ID {
			d.propose(l2, 2, false)
			d.with(p, 30)
		}
		for k := 0; k < 3; k++ {
			d.c.Do(Step{Act: "ReadIndex", Node: l.ID, Rid: d.nextRid})
			d.nextRid++
			d.pipeline(l.ID)
		}
		d.heal()
	case 2: // batches of reads with lost heartbeats and commits in between
		oth := d.others(l.ID)
		for k := 0; k < 3; k++ {
			d.isolate([]uint64{l.ID})
			d.c.Do(Step{Act: "ReadIndex", Node: l.ID, Rid: d.nextRid})
			d.nextRid++
			d.pipeline(l.ID)
			for _, nm := range append([]*NetMsg(nil), d.c.Net...) { // the heartbeats are lost
				if nm.M.GetFrom() == l.ID && nm.M.GetType() == pb.MsgHeartbeat {
					d.c.Do(Step{Act: "Drop", Mid: nm.Mid})
				}
			}
			d.heal()
			d.propose(l, 1, false)
			d.with(calm, 20+d.r.Intn(20))
			if len(oth) > 0 && pct(d.r, 50) {
				d.c.Do(Step{Act: "ReadIndex", Node: d.pick(oth), Rid: d.nextRid})
				d.nextRid++
			}
		}
	case 3: // shrink to the leader alone through a joint configuration; cut the leader off while it is joint
		kind := []string{"explicit", "implicit", "auto"}[d.r.Intn(3)]
		cc := kind + ":"
		for k, id := range d.others(l.ID) {
			if k > 0 {
				cc += " "
			}
			if pct(d.r, 30) {
				cc += fmt.Sprintf("l%d", id)
			} else {
				cc += fmt.Sprintf("r%d", id)
			}
		}
		if len(d.others(l.ID)) == 0 {
			break
		}
		if d.c.Do(Step{Act: "ProposeConfChange", Node: l.ID, Pid: d.nextPid, CC: cc}) {
			d.nextPid++
		}
		target := uint64(0)
		if st, perr := safeState(l.RN); perr == "" {
			target = st.LastIndex
		}
		// acknowledgements reach the leader, but the followers do not learn the new commit index
		for k := 0; k < 80; k++ {
			st, perr := safeState(l.RN)
			if d.c.up(l.ID) == nil || perr != "" || st.Commit >= target {
				break
			}
			d.with(calm, 1)
		}
		d.runNode(l.ID)
		d.isolate([]uint64{l.ID})
		for _, nm := range append([]*NetMsg(nil), d.c.Net...) {
			if nm.M.GetFrom() == l.ID {
				d.c.Do(Step{Act: "Drop", Mid: nm.Mid})
			}
		}
		p.Tick = 30
		d.with(p, 80+d.r.Intn(60))
		if l2 := d.leader(); l2 != nil && l2.ID != l.ID {
			d.propose(l2, 2, false)
			d.with(p, 30)
		}
		for k := 0; k < 3; k++ {
			d.c.Do(Step{Act: "ReadIndex", Node: l.ID, Rid: d.nextRid})
			d.nextRid++
			d.pipeline(l.ID)
		}
		d.heal()
	default:
		p.Dup = 6
		d.with(p, 100)
	}
	d.with(p, 80)
}

// crashes at every sub-step of Ready handling and of the append thread,
// restarts with every admissible Applied, on leaders, candidates and voters
func scCrashPoints(d *Driver) {
	d.loseUnsynced = pct(d.r, 70)
	for round := 0; round < 3+d.r.Intn(3); round++ {
		l := d.elect(200)
		if l != nil && pct(d.r, 70) {
			d.propose(l, 1+d.r.Intn(2), false)
		}
		d.with(calm, 5+d.r.Intn(25))
		ups := d.upNodes()
		if len(ups) == 0 {
			break
		}
		v := ups[d.r.Intn(len(ups))]
		if pct(d.r, 50) { // a vote / term change just before the crash
			o := d.pick(d.others(v.ID))
			if o != 0 {
				d.c.Do(Step{Act: "Campaign", Node: o})
				d.pipeline(o)
				p := calm
				p.Dup = 10
				d.with(p, 3+d.r.Intn(10))
			}
		}
		// advance the victim's pipeline to a random sub-step, then crash
		for k := d.r.Intn(5); k > 0; k-- {
			if n := d.c.up(v.ID); n != nil {
				if st := nextReadyStep(n); st != "" {
					d.c.Do(Step{Act: st, Node: v.ID})
				}
			}
		}
		if len(v.AppendQ) > 0 && pct(d.r, 50) {
			d.c.Do(Step{Act: "CrashInAppend", Node: v.ID, K: uint64(d.r.Intn(2))})
		} else {
			d.c.Do(Step{Act: "Crash", Node: v.ID, Ok: pct(d.r, 70)})
		}
		p := calm
		p.Dup, p.Tick, p.Campaign = 6, 15, 1
		d.with(p, 5+d.r.Intn(30))
		lo, hi := d.c.RestartRange(v)
		a := lo
		if hi > lo {
			a += uint64(d.r.Intn(int(hi-lo) + 1))
		}
		d.c.Do(Step{Act: "Restart", Node: v.ID, Applied: a})
		d.with(p, 20+d.r.Intn(40))
	}
	d.settle(80)
}

// streams of proposals of mixed sizes against tiny limits with acks held back
func scFlow(d *Driver) {
	l := d.elect(300)
	if l == nil {
		return
	}
	oth := d.others(l.ID)
	if len(oth) >= 2 && pct(d.r, 50) {
		// a node that was caught up by a snapshot leads afterwards
		f := d.pick(oth)
		d.isolate([]uint64{f})
		d.propose(l, 3+d.r.Intn(4), pct(d.r, 50))
		d.settle(40 + d.r.Intn(30))
		if n := d.c.up(l.ID); n != nil {
			d.snapCompact(n)
		}
		d.heal()
		d.settle(60 + d.r.Intn(40))
		d.c.Do(Step{Act: "TransferLeader", Node: l.ID, To: f})
		d.settle(60)
		if nl := d.leader(); nl == nil || nl.ID != f {
			d.isolate([]uint64{l.ID})
			d.c.Do(Step{Act: "Campaign", Node: f})
			d.settle(60)
			d.heal()
		}
		if nl := d.leader(); nl != nil {
			oth = d.others(nl.ID)
		}
	}
	for round := 0; round < 2+d.r.Intn(3); round++ {
		ld := d.leader()
		if ld == nil {
			break
		}
		if len(oth) > 0 {
			f := d.pick(oth)
			// acknowledgements from f do not reach the leader
			d.blocked[[2]uint64{f, ld.ID}] = true
		}
		d.propose(ld, 4+d.r.Intn(8), true)
		p := calm
		p.Propose, p.Unreach, p.Dup, p.Tick = 10, 2, 3, 8
		d.with(p, 30+d.r.Intn(50))
		d.heal()
		d.with(p, 20+d.r.Intn(30))
		if pct(d.r, 30) {
			if n := d.leader(); n != nil {
				d.snapCompact(n)
			}
		}
		if pct(d.r, 25) {
			d.c.Do(Step{Act: "TransferLeader", Node: ld.ID, To: d.pick(d.others(ld.ID))})
			d.with(p, 40)
		}
	}
	d.settle(80)
}

func contains(m map[uint64]struct{}, id uint64) bool { _, ok := m[id]; return ok }

func sortU(x []uint64) []uint64 { sort.Slice(x, func(i, j int) bool { return x[i] < x[j] }); return x }

// a large group (more than seven tracked peers) that replaces several voters at once through a
// joint configuration and sees elections, proposals and reads while it is joint
func scBigJoint(d *Driver) {
	l := d.elect(400)
	if l == nil {
		return
	}
	d.propose(l, 1+d.r.Intn(2), false)
	d.settle(40)
	st, perr := safeState(l.RN)
	if perr != "" {
		return
	}
	voters := st.ConfState.GetVoters()
	learners := st.ConfState.GetLearners()
	if len(voters) >= 4 && len(learners) >= 2 {
		// promote two learners, remove two voters (not the leader), staying joint until told to leave
		var out []uint64
		for _, v := range voters {
			if v != l.ID && len(out) < 2 {
				out = append(out, v)
			}
		}
		trans := []string{"explicit", "implicit", "auto"}[d.r.Intn(3)]
		cc := fmt.Sprintf("%s:v%d v%d r%d r%d", trans, learners[0], learners[1], out[0], out[1])
		if pct(d.r, 30) {
			cc = fmt.Sprintf("%s:v%d v%d l%d l%d", trans, learners[0], learners[1], out[0], out[1])
		}
		if d.c.Do(Step{Act: "ProposeConfChange", Node: l.ID, Pid: d.nextPid, CC: cc}) {
			d.nextPid++
		}
	}
	d.settle(60 + d.r.Intn(60))
	p := calm
	p.Tick, p.Propose, p.Read, p.Campaign, p.Dup = 12, 5, 3, 2, 3
	for round := 0; round < 2+d.r.Intn(3); round++ {
		if pct(d.r, 60) {
			ups := d.upNodes()
			c := ups[d.r.Intn(len(ups))]
			d.c.Do(Step{Act: "Campaign", Node: c.ID})
		}
		if pct(d.r, 30) {
			d.isolate([]uint64{d.pick(d.c.IDs)})
		}
		d.with(p, 40+d.r.Intn(60))
		d.heal()
		if ld := d.leader(); ld != nil {
			d.propose(ld, 1+d.r.Intn(2), false)
			if pct(d.r, 30) {
				if d.c.Do(Step{Act: "ProposeConfChange", Node: ld.ID, Pid: d.nextPid, CC: "leave"}) {
					d.nextPid++
				}
			}
		}
	}
	d.settle(120)
}

func (d *Driver) dropWhere(f func(m *pb.Message) bool) {
	for _, nm := range append([]*NetMsg(nil), d.c.Net...) {
		if f(nm.M) {
			d.c.Do(Step{Act: "Drop", Mid: nm.Mid})
		}
	}
}

// leaderIn returns a running leader among ids whose term exceeds minTerm.
func (d *Driver) leaderIn(ids []uint64, minTerm uint64) *AppNode {
	for _, id := range ids {
		if n := d.c.up(id); n != nil && safeIsLeader(n.RN) {
			if st, perr := safeState(n.RN); perr == "" && st.Term > minTerm {
				return n
			}
		}
	}
	return nil
}

// electIn lets the nodes of ids (already connected among themselves) elect a leader of a term above minTerm.
func (d *Driver) electIn(ids []uint64, minTerm uint64, prefer uint64) *AppNode {
	p := calm
	p.Tick = 0
	for k := 0; k < 14; k++ {
		if n := d.leaderIn(ids, minTerm); n != nil {
			return n
		}
		if k%4 == 0 {
			for t := 0; t < 12; t++ { // leases expire
				for _, id := range ids {
					if id != prefer {
						d.c.Do(Step{Act: "Tick", Node: id})
					}
				}
			}
		}
		d.c.Do(Step{Act: "Campaign", Node: prefer})
		for st := 0; st < 30; st++ { // stop at the very step that makes a leader
			if n := d.leaderIn(ids, minTerm); n != nil {
				return n
			}
			d.with(p, 1)
		}
	}
	return d.leaderIn(ids, minTerm)
}

func termOf(n *AppNode) uint64 {
	if n == nil || n.RN == nil {
		return 0
	}
	st, perr := safeState(n.RN)
	if perr != "" {
		return 0
	}
	return st.Term
}

// Asynchronous storage writes on a follower V whose acknowledgements from the append thread travel
// slowly: V installs a snapshot plus entries of leader A (term t) in one write; a leader B of a later
// term overwrites those entries (second write, completed); A, re-elected in a still later term,
// sends its old entries again (third write, still queued) - and only now the acknowledgement of the
// first write (same index, same term t, but a different incarnation of those entries) arrives.
func scAckRace(d *Driver) {
	a := d.elect(300)
	if a == nil || len(d.c.IDs) < 5 {
		return
	}
	oth := d.others(a.ID)
	d.r.Shuffle(len(oth), func(i, j int) { oth[i], oth[j] = oth[j], oth[i] })
	v, rest := oth[0], oth[1:]
	if !d.c.Nodes[v].Cfg.Async {
		d.settle(100)
		return
	}
	// V falls behind and will need a snapshot
	d.isolate([]uint64{v})
	d.dropWhere(func(m *pb.Message) bool { return m.GetFrom() == v || m.GetTo() == v })
	d.propose(a, 2+d.r.Intn(2), false)
	caughtUp := func() bool {
		st, perr := safeState(a.RN)
		return perr == "" && st.Commit == st.LastIndex && st.Applied == st.Commit
	}
	if !d.waitFor(60, caughtUp) || d.c.up(a.ID) == nil || !safeIsLeader(a.RN) {
		d.heal()
		d.settle(100)
		return
	}
	if _, hi := d.c.snapBounds(a); hi > 1 {
		if d.c.Do(Step{Act: "Snapshot", Node: a.ID, K: hi}) {
			d.c.Do(Step{Act: "Compact", Node: a.ID, K: hi})
		}
	}
	tA := termOf(d.c.up(a.ID))
	// A is cut off from everyone but V and accepts proposals nobody else sees
	d.heal()
	d.isolate([]uint64{a.ID, v})
	d.holdTypes[pb.MsgSnap], d.holdTypes[pb.MsgApp] = true, true
	d.propose(a, 1+d.r.Intn(2), false)
	p := calm
	p.Tick = 0
	snapIdx := uint64(0)
	if sn, err := a.St.Snapshot(); err == nil {
		snapIdx = sn.GetMetadata().GetIndex()
	}
	inNet := func(t pb.MessageType, withEnts bool) bool {
		for _, nm := range d.c.Net {
			if nm.M.GetType() == t && nm.M.GetFrom() == a.ID && nm.M.GetTo() == v && (!withEnts || (len(nm.M.GetEntries()) > 0 && nm.M.GetIndex() >= snapIdx)) {
				return true
			}
		}
		return false
	}
	for k := 0; k < 12 && !inNet(pb.MsgSnap, false); k++ {
		d.c.Do(Step{Act: "Tick", Node: a.ID})
		d.with(p, 15)
	}
	if inNet(pb.MsgSnap, false) {
		// the application reports the snapshot as sent; the next heartbeat response makes A append optimistically
		d.c.Do(Step{Act: "ReportSnapshot", Node: a.ID, To: v, Ok: true})
		for k := 0; k < 12 && !inNet(pb.MsgApp, true); k++ {
			d.c.Do(Step{Act: "Tick", Node: a.ID})
			d.with(p, 15)
		}
	}
	// snapshot and the following append reach V before V looks at its Ready
	d.frozenReady[v] = true
	gotSnap := d.deliverSel(MsgSel{Type: "Snap", From: a.ID, To: v})
	gotApp := false
	for k := 0; k < 6; k++ {
		if !inNet(pb.MsgApp, false) {
			break
		}
		if d.deliverSel(MsgSel{Type: "App", From: a.ID, To: v}) {
			gotApp = true
		}
	}
	dbg("ack-race: snap", gotSnap, "app", gotApp)
	if os.Getenv("VERIF_DEBUG_SC") != "" {
		jn := jNode(d.c.Nodes[v].RN)
		dbg("   V after deliveries: term", jn.Term, "role", jn.Role, "usnap", jn.USnap.Has, jn.USnap.Index, "uents", fmt.Sprint(jn.UEnts), "commit", jn.Commit, "msgs", len(jn.Msgs), len(jn.After))
		ja := jNode(a.RN)
		dbg("   A: term", ja.Term, "role", ja.Role, "first", ja.First, "last", ja.Last, "prs", fmt.Sprint(ja.Prs))
	}
	d.releaseHolds()
	d.frozenReady[v] = false
	d.frozenLocal[v] = true
	d.runNode(v) // first write done, its acknowledgement is on the way
	dbg("ack-race: pending acks", len(d.c.Nodes[v].LocalQ))
	showAcks := func(tag string) {
		for _, m := range d.c.Nodes[v].LocalQ {
			dbg("   ", tag, "ack: term", m.GetTerm(), "index", m.GetIndex(), "logterm", m.GetLogTerm(), "snap", m.GetSnapshot() != nil)
		}
	}
	showAcks("after first write")
	// A is now alone; a new leader among the rest, whose appends reach only V
	d.heal()
	d.isolate([]uint64{a.ID})
	for _, nm := range append([]*NetMsg(nil), d.c.Net...) {
		if nm.M.GetFrom() == a.ID || nm.M.GetTo() == a.ID {
			d.c.Do(Step{Act: "Drop", Mid: nm.Mid})
		}
	}
	d.blocked[[2]uint64{v, rest[0]}], d.blocked[[2]uint64{v, rest[1]}], d.blocked[[2]uint64{v, rest[2]}] = true, true, true
	b := d.electIn(rest, tA, rest[0])
	if b == nil {
		d.unfreeze()
		d.heal()
		d.settle(120)
		return
	}
	tB := termOf(b)
	d.heal()
	d.isolate([]uint64{b.ID, v})
	d.dropWhere(func(m *pb.Message) bool { return m.GetFrom() == b.ID && m.GetTo() != v })
	d.propose(b, 1+d.r.Intn(2), false)
	d.with(p, 60) // second write (overwriting the first) is carried out; acknowledgements still queue up
	dbg("ack-race: B leads term", tB, "pending acks at V", len(d.c.Nodes[v].LocalQ))
	showAcks("after B")
	// A hears of the new term, then wins again with the votes of the two nodes that saw nothing of B's entries
	d.blocked[[2]uint64{b.ID, a.ID}] = false
	d.c.Do(Step{Act: "Tick", Node: b.ID})
	d.pipeline(b.ID)
	d.deliverSel(MsgSel{Type: "Heartbeat", From: b.ID, To: a.ID})
	d.runNode(a.ID)
	var cd []uint64
	for _, id := range rest {
		if id != b.ID {
			cd = append(cd, id)
		}
	}
	d.heal()
	d.isolate(append([]uint64{a.ID}, cd...))
	a2 := d.electIn(append([]uint64{a.ID}, cd...), tB, a.ID)
	if a2 == nil || a2.ID != a.ID {
		for _, n := range d.upNodes() {
			if st, perr := safeState(n.RN); perr == "" {
				dbg("   A not re-elected: node", n.ID, st.State, "term", st.Term, "lead", st.Lead, "commit", st.Commit, "last", st.LastIndex, "lastTerm", st.LastTerm, "a", a.ID, "b", b.ID, "v", v)
			}
		}
		d.unfreeze()
		d.heal()
		d.settle(120)
		return
	}
	d.with(p, 40) // A commits its old entries with the two
	// A reaches V again and finds out where their logs diverge; the append that brings A's old entries
	// back is held until it is on the wire, then V's storage stalls and it is delivered: V's third
	// write stays queued
	var ack1 *pb.Message
	if q := d.c.Nodes[v].LocalQ; len(q) > 0 {
		ack1 = q[0]
	}
	bringsBack := func(m *pb.Message) bool {
		if ack1 == nil || m.GetType() != pb.MsgApp || m.GetFrom() != a.ID || m.GetTo() != v {
			return false
		}
		for _, e := range m.GetEntries() {
			if e.GetIndex() == ack1.GetIndex() && e.GetTerm() == ack1.GetLogTerm() {
				return true
			}
		}
		return false
	}
	onWire := func() bool {
		for _, nm := range d.c.Net {
			if bringsBack(nm.M) {
				return true
			}
		}
		return false
	}
	d.holdIf = bringsBack
	d.heal()
	d.isolate([]uint64{b.ID})
	p.Tick = 0
	for k := 0; k < 30 && !onWire(); k++ {
		d.c.Do(Step{Act: "Tick", Node: a.ID})
		d.with(p, 12)
	}
	dbg("ack-race: the append bringing the old entries back is on the wire:", onWire())
	d.frozenAppend[v] = true
	d.holdIf = nil
	for k := 0; k < 4 && onWire(); k++ {
		for _, nm := range d.c.Net {
			if bringsBack(nm.M) {
				d.c.Do(Step{Act: "Deliver", Mid: nm.Mid})
				break
			}
		}
	}
	d.runNode(v)
	dbg("ack-race: third write queued", len(d.c.Nodes[v].AppendQ), "pending acks", len(d.c.Nodes[v].LocalQ))
	if os.Getenv("VERIF_DEBUG_SC") != "" {
		n := d.c.Nodes[v]
		if st, perr := safeState(n.RN); perr == "" {
			dbg("   V term", st.Term, "commit", st.Commit, "applied", st.Applied, "last", st.LastIndex, "unstable", fmt.Sprint(jNode(n.RN).UEnts), "uoff", jNode(n.RN).UOff)
			for _, m := range n.LocalQ {
				dbg("   ack: term", m.GetTerm(), "index", m.GetIndex(), "logterm", m.GetLogTerm(), "snap", m.GetSnapshot() != nil)
			}
			dbg("   disk", fmt.Sprint(jDisk(n.St).Ents))
		}
	}
	// the delayed acknowledgements arrive now
	d.frozenLocal[v] = false
	for n := d.c.up(v); n != nil && len(n.LocalQ) > 0; {
		if !d.c.Do(Step{Act: "LocalResp", Node: v}) {
			break
		}
	}
	d.with(p, 40)
	d.unfreeze()
	d.with(p, 40)
	d.heal()
	d.settle(120)
}
