package main

// Seeded random driver (source S3): weighted choice among all environment
// actions enabled in the current real state, with profiles that emphasise
// different fault families.

import (
	"fmt"
	"math/rand"
	"sort"

	"go.etcd.io/raft/v3"
	pb "go.etcd.io/raft/v3/raftpb"
)

type Profile struct {
	Name string
	// weights
	Tick, Campaign, Propose, ProposeCC, Read, Transfer, Forget, Unreach, RepSnap        int
	Deliver, Drop, Dup, ReadyStep, AppendTh, ApplyTh, Snapshot, Compact, Crash, Restart int
	CrashInAppend                                                                       int
	Partition, Heal                                                                     int
	MaxNodes                                                                            int
	Async                                                                               int // percent of runs with async storage writes
	TinyLimits                                                                          int // percent of runs with tiny flow-control limits
	Learner                                                                             int // percent of runs with a learner
	Spare                                                                               int // percent of runs with a spare (joiner) id
	BigPayload                                                                          int // percent of proposals with a big payload
}

var profiles = map[string]Profile{
	"base": {Name: "base", Tick: 12, Campaign: 1, Propose: 8, ProposeCC: 1, Read: 2, Transfer: 1, Forget: 0, Unreach: 1, RepSnap: 2,
		Deliver: 40, Drop: 3, Dup: 3, ReadyStep: 40, AppendTh: 20, ApplyTh: 15, Snapshot: 2, Compact: 2, Crash: 1, Restart: 4,
		CrashInAppend: 1, Partition: 1, Heal: 2, MaxNodes: 5, Async: 40, TinyLimits: 30, Learner: 25, Spare: 30, BigPayload: 10},
	"crash": {Name: "crash", Tick: 12, Campaign: 2, Propose: 8, ProposeCC: 1, Read: 1, Transfer: 1, Unreach: 0, RepSnap: 1,
		Deliver: 35, Drop: 2, Dup: 2, ReadyStep: 30, AppendTh: 10, ApplyTh: 10, Snapshot: 2, Compact: 1, Crash: 6, Restart: 10,
		CrashInAppend: 4, Partition: 1, Heal: 2, MaxNodes: 3, Async: 60, TinyLimits: 10, Learner: 10, Spare: 10, BigPayload: 5},
	"election": {Name: "election", Tick: 25, Campaign: 4, Propose: 4, ProposeCC: 0, Read: 0, Transfer: 3, Forget: 1, Unreach: 0, RepSnap: 0,
		Deliver: 35, Drop: 4, Dup: 6, ReadyStep: 35, AppendTh: 12, ApplyTh: 8, Snapshot: 0, Compact: 0, Crash: 3, Restart: 6,
		CrashInAppend: 2, Partition: 3, Heal: 3, MaxNodes: 5, Async: 50, TinyLimits: 0, Learner: 20, Spare: 0, BigPayload: 0},
	"snap": {Name: "snap", Tick: 10, Campaign: 1, Propose: 12, ProposeCC: 1, Read: 0, Transfer: 0, Unreach: 1, RepSnap: 6,
		Deliver: 35, Drop: 4, Dup: 4, ReadyStep: 40, AppendTh: 20, ApplyTh: 20, Snapshot: 8, Compact: 8, Crash: 2, Restart: 5,
		CrashInAppend: 1, Partition: 3, Heal: 3, MaxNodes: 4, Async: 40, TinyLimits: 20, Learner: 20, Spare: 40, BigPayload: 5},
	"conf": {Name: "conf", Tick: 10, Campaign: 1, Propose: 6, ProposeCC: 8, Read: 0, Transfer: 1, Unreach: 0, RepSnap: 2,
		Deliver: 40, Drop: 2, Dup: 2, ReadyStep: 40, AppendTh: 20, ApplyTh: 20, Snapshot: 3, Compact: 2, Crash: 2, Restart: 5,
		CrashInAppend: 1, Partition: 1, Heal: 2, MaxNodes: 5, Async: 40, TinyLimits: 10, Learner: 30, Spare: 80, BigPayload: 0},
	"read": {Name: "read", Tick: 12, Campaign: 1, Propose: 6, ProposeCC: 1, Read: 12, Transfer: 1, Forget: 1, Unreach: 0, RepSnap: 0,
		Deliver: 40, Drop: 3, Dup: 4, ReadyStep: 40, AppendTh: 20, ApplyTh: 15, Snapshot: 0, Compact: 0, Crash: 1, Restart: 3,
		CrashInAppend: 0, Partition: 4, Heal: 3, MaxNodes: 5, Async: 30, TinyLimits: 0, Learner: 30, Spare: 20, BigPayload: 0},
	"flow": {Name: "flow", Tick: 8, Campaign: 1, Propose: 25, ProposeCC: 0, Read: 0, Transfer: 0, Unreach: 3, RepSnap: 2,
		Deliver: 30, Drop: 8, Dup: 3, ReadyStep: 40, AppendTh: 20, ApplyTh: 10, Snapshot: 2, Compact: 2, Crash: 1, Restart: 3,
		CrashInAppend: 0, Partition: 2, Heal: 2, MaxNodes: 3, Async: 30, TinyLimits: 90, Learner: 10, Spare: 0, BigPayload: 30},
}

type Driver struct {
	c       *Cluster
	r       *rand.Rand
	p       Profile
	nextPid int
	nextRid int
	blocked map[[2]uint64]bool
	spare   []uint64
	chaos   bool
	// scenario support
	forceChaos   bool
	frozenReady  map[uint64]bool // the node's Ready pipeline is stalled
	frozenAppend map[uint64]bool // append thread stalled
	frozenApply  map[uint64]bool // apply thread stalled
	frozenLocal  map[uint64]bool // the append thread's acknowledgements to the node itself are delayed
	loseUnsynced bool
	holdTypes    map[pb.MessageType]bool  // message types kept in the network (delayed)
	holdIf       func(m *pb.Message) bool // further messages kept in the network
	wholePct     int                      // how often a chosen Ready step runs the node's whole pipeline
	sinceMaint   int
}

func pct(r *rand.Rand, p int) bool { return r.Intn(100) < p }

// GenCluster draws a cluster configuration from the seed.
type Wish struct {
	MinNodes, MaxNodes int
	Async, Tiny        int // -1 = profile default, else percent
	Spare              int
	NoLearner          bool
	Learners           int  // number of learners among the initial members (0: profile default, at most one)
	OnlySizeLimits     bool // tiny MaxSizePerMsg / MaxCommittedSizePerReady only; no inflight or uncommitted limits
}

var noWish = Wish{Async: -1, Tiny: -1, Spare: -1}

func GenCluster(r *rand.Rand, p Profile, seed int64, w Wish) JCluster {
	if w.MaxNodes > 0 {
		p.MaxNodes = w.MaxNodes
	}
	if w.Async >= 0 {
		p.Async = w.Async
	}
	if w.Tiny >= 0 {
		p.TinyLimits = w.Tiny
	}
	if w.Spare >= 0 {
		p.Spare = w.Spare
	}
	if w.NoLearner {
		p.Learner = 0
	}
	n := 1 + r.Intn(p.MaxNodes)
	if n < 3 && pct(r, 70) {
		n = 3
	}
	if n < w.MinNodes {
		n = w.MinNodes
	}
	async := pct(r, p.Async)
	tiny := pct(r, p.TinyLimits)
	preVote, checkQuorum := pct(r, 50), pct(r, 50)
	mixed := pct(r, 15)
	et := 3 + r.Intn(3)
	cl := JCluster{Profile: p.Name, Seed: seed}
	conf := JConf{Voters: []uint64{}, Outgoing: []uint64{}, Learners: []uint64{}, LearnersNext: []uint64{}}
	mk := func(id uint64, initial bool) JNodeCfg {
		nc := JNodeCfg{ID: id, PreVote: preVote, CheckQuorum: checkQuorum, Async: async,
			StepDownOnRemoval: pct(r, 50), DisableCCValid: false, DisableForwarding: pct(r, 10),
			ElectionTick: et, HeartbeatTick: 1, MaxSizePerMsg: noLimitU, MaxCommittedSize: 0, MaxUncommittedSize: 0,
			MaxInflightMsgs: 256, MaxInflightBytes: 0, Initial: initial}
		if mixed {
			nc.PreVote, nc.CheckQuorum = pct(r, 50), pct(r, 50)
			nc.Async = pct(r, 50)
		}
		if tiny {
			nc.MaxSizePerMsg = []uint64{0, 1, 20, 40, 64}[r.Intn(5)]
			nc.MaxInflightMsgs = 1 + r.Intn(3)
			if pct(r, 40) {
				nc.MaxInflightBytes = max(nc.MaxSizePerMsg, uint64(10+r.Intn(60)))
				if pct(r, 50) { // the byte limit is the one that binds
					nc.MaxInflightMsgs = 256
				}
			}
			nc.MaxCommittedSize = []uint64{0, 1, 30, 60}[r.Intn(4)]
			if w.OnlySizeLimits {
				nc.MaxSizePerMsg = []uint64{20, 30, 40, 64}[r.Intn(4)]
				nc.MaxCommittedSize = []uint64{0, 30, 45, 60}[r.Intn(4)]
				nc.MaxInflightMsgs, nc.MaxInflightBytes, nc.MaxUncommittedSize = 256, 0, 0
			}

			nc.MaxUncommittedSize = []uint64{0, 1, 20, 50, 100}[r.Intn(5)]
		}
		return nc
	}
	learner := n >= 2 && pct(r, p.Learner)
	for i := 1; i <= n; i++ {
		id := uint64(i)
		if (learner && i == n && w.Learners == 0) || (w.Learners > 0 && i > n-w.Learners) {
			conf.Learners = append(conf.Learners, id)
		} else {
			conf.Voters = append(conf.Voters, id)
		}
		cl.Nodes = append(cl.Nodes, mk(id, true))
	}
	if n < 5 && w.MaxNodes <= 5 && pct(r, p.Spare) {
		cl.Nodes = append(cl.Nodes, mk(uint64(n+1), false))
		if n < 4 && (pct(r, 30) || p.Spare >= 100) {
			cl.Nodes = append(cl.Nodes, mk(uint64(n+2), false))
		}
	}
	cl.Conf = conf
	return cl
}

func NewDriver(c *Cluster, r *rand.Rand, p Profile) *Driver {
	d := &Driver{c: c, r: r, p: p, nextPid: 1, nextRid: 1, blocked: map[[2]uint64]bool{},
		frozenReady: map[uint64]bool{}, frozenAppend: map[uint64]bool{}, frozenApply: map[uint64]bool{}, frozenLocal: map[uint64]bool{},
		holdTypes: map[pb.MessageType]bool{}, wholePct: 75}
	c.rtoDraw = func(id uint64, et int) int { return et + r.Intn(et) }
	return d
}

func (d *Driver) upNodes() []*AppNode {
	var out []*AppNode
	for _, id := range d.c.IDs {
		if n := d.c.up(id); n != nil {
			out = append(out, n)
		}
	}
	return out
}

func (d *Driver) linkOK(from, to uint64) bool { return !d.blocked[[2]uint64{from, to}] }

// nextReadyStep returns the next sub-step of the node's Ready pipeline.
func nextReadyStep(n *AppNode) string {
	if n.RN == nil {
		return ""
	}
	switch n.Phase {
	case "idle":
		has := true // a panicking HasReady is surfaced (and recorded) by the Ready step itself
		func() {
			defer func() { _ = recover() }()
			has = n.RN.HasReady()
		}()
		if has {
			return "Ready"
		}
		return ""
	case "ready":
		if n.Cfg.Async {
			return "Send"
		}
		if !raft.IsEmptySnap(n.Rd.Snapshot) {
			return "PersistSnapshot"
		}
		return "PersistEntries"
	case "ents":
		return "PersistHardState"
	case "hs":
		return "Send"
	case "sent":
		return "Apply"
	case "applied":
		return "Advance"
	}
	return ""
}

func (d *Driver) ccCandidates() []string {
	ids := d.c.IDs
	var out []string
	for _, id := range ids {
		out = append(out, fmt.Sprintf("auto:v%d", id), fmt.Sprintf("auto:r%d", id), fmt.Sprintf("auto:l%d", id),
			fmt.Sprintf("v1:v%d", id), fmt.Sprintf("v1:r%d", id), fmt.Sprintf("v1:l%d", id),
			fmt.Sprintf("implicit:v%d", id), fmt.Sprintf("explicit:r%d", id), fmt.Sprintf("explicit:l%d", id))
	}
	if len(ids) >= 2 {
		a, b := ids[d.r.Intn(len(ids))], ids[d.r.Intn(len(ids))]
		out = append(out, fmt.Sprintf("auto:v%d r%d", a, b), fmt.Sprintf("implicit:v%d l%d", a, b),
			fmt.Sprintf("explicit:v%d r%d", a, b), fmt.Sprintf("auto:l%d v%d", a, b), fmt.Sprintf("auto:u%d", a))
	}
	out = append(out, "leave", "leave")
	return out
}

// Step picks and executes one random enabled action: first the action kind
// (by profile weight, among kinds with at least one enabled instance), then a
// uniformly random instance of it. Returns false if nothing could be done.
func (d *Driver) Step() bool {
	p := d.p
	c := d.c
	kinds := map[string][]Step{}
	weight := map[string]int{}
	var order []string
	add := func(kind string, w int, s Step) {
		if w <= 0 {
			return
		}
		if _, ok := weight[kind]; !ok {
			order = append(order, kind)
		}
		weight[kind] = w
		kinds[kind] = append(kinds[kind], s)
	}
	// calm / chaos phases: faults only happen in chaos phases, so that the
	// group regularly gets far enough (leaders, commits, conf changes,
	// snapshots) for the faults to hit interesting states.
	if d.forceChaos {
		// scenario phase: weights are used as given
	} else if d.chaos {
		if pct(d.r, 8) {
			d.chaos = false
			if pct(d.r, 70) {
				d.blocked = map[[2]uint64]bool{}
			}
		}
	} else if pct(d.r, 4) {
		d.chaos = true
	}
	if !d.chaos && !d.forceChaos {
		p.Crash, p.CrashInAppend, p.Drop, p.Dup, p.Forget, p.Unreach, p.Partition = 0, 0, 0, 0, 0, 0, 0
		p.Campaign = min(p.Campaign, 1)
		p.Restart *= 3
	}
	// a contract-following application provides a usable snapshot when a follower needs one
	if d.sinceMaint++; d.sinceMaint >= 25 {
		d.sinceMaint = 0
		d.maintainSnapshots()
	}
	ups := d.upNodes()
	for _, n := range ups {
		isLeader := safeIsLeader(n.RN)
		add("Tick", p.Tick, Step{Act: "Tick", Node: n.ID})
		add("Campaign", p.Campaign, Step{Act: "Campaign", Node: n.ID})
		psz := 0
		if pct(d.r, p.BigPayload) {
			psz = 20 + d.r.Intn(60)
		}
		if isLeader || pct(d.r, 25) {
			add("Propose", p.Propose, Step{Act: "Propose", Node: n.ID, Pid: d.nextPid, Psz: psz})
			if pct(d.r, 15) {
				cc := ""
				if p.ProposeCC > 0 && pct(d.r, 40) {
					ccs := d.ccCandidates()
					cc = ccs[d.r.Intn(len(ccs))]
				}
				cnt := 2 + d.r.Intn(2)
				add("Propose", p.Propose, Step{Act: "ProposeBatch", Node: n.ID, Pid: d.nextPid, Psz: psz, To: uint64(cnt), CC: cc, K: uint64(d.r.Intn(cnt))})
			}
			if p.ProposeCC > 0 {
				ccs := d.ccCandidates()
				add("ProposeCC", p.ProposeCC, Step{Act: "ProposeConfChange", Node: n.ID, Pid: d.nextPid, CC: ccs[d.r.Intn(len(ccs))]})
			}
		}
		add("Read", p.Read, Step{Act: "ReadIndex", Node: n.ID, Rid: d.nextRid})
		other := c.IDs[d.r.Intn(len(c.IDs))]
		add("Transfer", p.Transfer, Step{Act: "TransferLeader", Node: n.ID, To: other})
		add("Forget", p.Forget, Step{Act: "ForgetLeader", Node: n.ID})
		if isLeader {
			add("Unreach", p.Unreach, Step{Act: "ReportUnreachable", Node: n.ID, To: other})
			add("RepSnap", p.RepSnap, Step{Act: "ReportSnapshot", Node: n.ID, To: other, Ok: pct(d.r, 60)})
		}
		if st := nextReadyStep(n); st != "" && !d.frozenReady[n.ID] {
			add("ReadyStep", p.ReadyStep, Step{Act: st, Node: n.ID})
		}
		if len(n.LocalQ) > 0 && !d.frozenLocal[n.ID] {
			add("LocalResp", 2*p.AppendTh, Step{Act: "LocalResp", Node: n.ID})
		}
		if len(n.AppendQ) > 0 && !d.frozenAppend[n.ID] {
			add("AppendTh", p.AppendTh, Step{Act: "AppendThread", Node: n.ID, Keep: pct(d.r, 15)})
			add("CrashInAppend", p.CrashInAppend, Step{Act: "CrashInAppend", Node: n.ID, K: uint64(d.r.Intn(2))})
		}
		if len(n.ApplyQ) > 0 && !d.frozenApply[n.ID] {
			add("ApplyTh", p.ApplyTh, Step{Act: "ApplyThread", Node: n.ID})
		}
		add("Crash", p.Crash, Step{Act: "Crash", Node: n.ID, Ok: d.loseUnsynced || pct(d.r, 50)})
	}
	for _, id := range c.IDs {
		n := c.Nodes[id]
		if !n.Created {
			add("Boot", 1, Step{Act: "Boot", Node: id})
			continue
		}
		if n.RN == nil {
			lo, hi := c.RestartRange(n)
			a := lo
			if hi > lo {
				a = lo + uint64(d.r.Intn(int(hi-lo)+1))
			}
			add("Restart", p.Restart, Step{Act: "Restart", Node: id, Applied: a})
		}
		if lo, hi := c.snapBounds(n); hi >= lo {
			add("Snapshot", p.Snapshot, Step{Act: "Snapshot", Node: id, K: lo + uint64(d.r.Intn(int(hi-lo)+1))})
		}
		snap, _ := n.St.Snapshot()
		fi, _ := n.St.FirstIndex()
		if si := snap.GetMetadata().GetIndex(); si >= fi {
			add("Compact", p.Compact, Step{Act: "Compact", Node: id, K: fi + uint64(d.r.Intn(int(si-fi)+1))})
		}
	}
	// network
	if len(c.Net) > 0 {
		var deliverable []*NetMsg
		for _, nm := range c.Net {
			if d.linkOK(nm.M.GetFrom(), nm.M.GetTo()) && c.up(nm.M.GetTo()) != nil && !d.holdTypes[nm.M.GetType()] && (d.holdIf == nil || !d.holdIf(nm.M)) {
				deliverable = append(deliverable, nm)
			}
		}
		if len(deliverable) > 0 {
			// prefer older messages but allow arbitrary reordering
			pick := func() *NetMsg {
				if pct(d.r, 60) {
					return deliverable[d.r.Intn(min(3, len(deliverable)))]
				}
				return deliverable[d.r.Intn(len(deliverable))]
			}
			add("Deliver", p.Deliver, Step{Act: "Deliver", Mid: pick().Mid})
			add("Dup", p.Dup, Step{Act: "Deliver", Mid: pick().Mid, Keep: true})
		}
		w := p.Drop
		if len(c.Net) > 40 { // keep the bag bounded
			w += 30
		}
		add("Drop", w, Step{Act: "Drop", Mid: c.Net[d.r.Intn(len(c.Net))].Mid})
	}
	// partitions are pure harness state (no event)
	if p.Partition > 0 && pct(d.r, 2) {
		d.togglePartition()
	}
	total := 0
	for _, k := range order {
		total += weight[k]
	}
	if total == 0 {
		return false
	}
	for tries := 0; tries < 8; tries++ {
		k := d.r.Intn(total)
		for _, kind := range order {
			if k < weight[kind] {
				cands := kinds[kind]
				s := cands[d.r.Intn(len(cands))]
				if kind == "ReadyStep" && (!d.chaos || d.forceChaos) && pct(d.r, d.wholePct) {
					// run the node's whole Ready pipeline
					for k := 0; k < 8; k++ {
						n := c.up(s.Node)
						if n == nil {
							break
						}
						st := nextReadyStep(n)
						if st == "" || (k > 0 && st == "Ready") || !c.Do(Step{Act: st, Node: s.Node}) {
							break
						}
					}
					return true
				}
				if c.Do(s) {
					if s.Act == "Propose" || s.Act == "ProposeConfChange" {
						d.nextPid++
					}
					if s.Act == "ProposeBatch" {
						d.nextPid += int(s.To)
					}
					if s.Act == "ReadIndex" {
						d.nextRid++
					}
					return true
				}
				break
			}
			k -= weight[kind]
		}
	}
	return true
}

func (d *Driver) togglePartition() {
	if len(d.blocked) > 0 && pct(d.r, 50) {
		d.blocked = map[[2]uint64]bool{}
		return
	}
	ids := d.c.IDs
	if len(ids) < 2 {
		return
	}
	// isolate one node, possibly one-directional
	v := ids[d.r.Intn(len(ids))]
	oneWay := pct(d.r, 30)
	for _, o := range ids {
		if o == v {
			continue
		}
		d.blocked[[2]uint64{v, o}] = true
		if !oneWay {
			d.blocked[[2]uint64{o, v}] = true
		}
	}
}

// Stabilize appends a fault-free suffix (C15): restart members, stop removed
// nodes, deliver everything, tick everyone, report snapshot outcomes. It ends
// with one "Stabilized" event per live node.
func (d *Driver) Stabilize(rounds int) {
	c := d.c
	c.Quiet = true
	c.quietFrom = len(c.Sched)
	d.blocked = map[[2]uint64]bool{}
	// Election-timeout draws in the fault-free suffix: the randomized timeout exists to break
	// ties eventually; the suffix uses the favourable draw (the most up-to-date node times out
	// first), so that a bounded number of rounds suffices and the check never depends on luck.
	c.rtoDraw = func(id uint64, et int) int {
		if id == d.mostUpToDate() {
			return et
		}
		return 2*et - 1
	}
	for round := 0; round < rounds; round++ {
		members := d.committedMembers()
		for _, id := range c.IDs {
			n := c.Nodes[id]
			if !n.Created {
				if members[id] {
					c.Do(Step{Act: "Boot", Node: id})
				}
				continue
			}
			if !members[id] {
				if n.RN != nil {
					c.Do(Step{Act: "Crash", Node: id})
				}
				continue
			}
			if n.RN == nil {
				lo, _ := c.RestartRange(n)
				c.Do(Step{Act: "Restart", Node: id, Applied: lo})
			}
		}
		for _, id := range c.IDs {
			if members[id] {
				c.Do(Step{Act: "Tick", Node: id})
			}
		}
		// the application keeps working: a proposal accepted in the suffix must be applied by
		// every member (and gives a pending automatic leave-joint its retry point)
		if round == rounds/2 || round == rounds/2+3 {
			if ld := d.leader(); ld != nil {
				if c.Do(Step{Act: "Propose", Node: ld.ID, Pid: d.nextPid}) {
					d.nextPid++
				}
			}
		}
		// run everything to quiescence (bounded)
		for iter := 0; iter < 200; iter++ {
			progress := false
			for _, id := range c.IDs {
				n := c.up(id)
				if n == nil {
					continue
				}
				for k := 0; k < 12; k++ {
					st := nextReadyStep(n)
					if st == "" || !c.Do(Step{Act: st, Node: id}) {
						break
					}
					progress = true
					if c.up(id) == nil {
						break
					}
				}
				for c.up(id) != nil && len(n.LocalQ) > 0 && c.Do(Step{Act: "LocalResp", Node: id}) {
					progress = true
				}
				for c.up(id) != nil && len(n.AppendQ) > 0 && c.Do(Step{Act: "AppendThread", Node: id}) {
					progress = true
				}
				for c.up(id) != nil && len(n.ApplyQ) > 0 && c.Do(Step{Act: "ApplyThread", Node: id}) {
					progress = true
				}
			}
			// deliver all in-flight messages, oldest first
			// "If any Message has type MsgSnap, call Node.ReportSnapshot() after it has been sent":
			// a transfer that is no longer under way is reported as failed
			if d.reportStaleSnapshots() {
				progress = true
			}
			msgs := append([]*NetMsg(nil), c.Net...)
			for _, nm := range msgs {
				if c.up(nm.M.GetTo()) == nil {
					c.Do(Step{Act: "Drop", Mid: nm.Mid})
					continue
				}
				isSnap := nm.M.GetType() == pb.MsgSnap
				from, to := nm.M.GetFrom(), nm.M.GetTo()
				if c.Do(Step{Act: "Deliver", Mid: nm.Mid}) {
					progress = true
					if isSnap && c.up(from) != nil {
						c.Do(Step{Act: "ReportSnapshot", Node: from, To: to, Ok: true})
					}
				}
			}
			// a contract-following application creates a fresh snapshot when a
			// follower needs one (MemoryStorage serves only the last created one)
			for _, id := range c.IDs {
				n := c.up(id)
				if n == nil {
					continue
				}
				if _, hi := c.snapBounds(n); hi > 0 && d.needsSnapshot(n) {
					if c.Do(Step{Act: "Snapshot", Node: id, K: hi}) {
						progress = true
					}
				}
			}
			if !progress {
				break
			}
		}
	}
	c.Quiet = false
	var live []uint64
	for _, id := range c.IDs {
		if c.Nodes[id].Created {
			live = append(live, id)
		}
	}
	for k, id := range live {
		c.Do(Step{Act: "Stabilized", Node: id, K: uint64(rounds), Ok: k == len(live)-1})
	}
}

// reportStaleSnapshots: "If any Message has type MsgSnap, call Node.ReportSnapshot() after it has been
// sent": a transfer that is no longer under way (the message was delivered, dropped or ignored) is
// reported as failed, which lets the leader probe again.
func (d *Driver) reportStaleSnapshots() bool {
	c := d.c
	did := false
	for _, id := range c.IDs {
		n := c.up(id)
		if n == nil || !safeIsLeader(n.RN) {
			continue
		}
		vs, _ := safeState(n.RN)
		for _, pr := range vs.Progress {
			if pr.State != "StateSnapshot" {
				continue
			}
			inFlight := false
			for _, nm := range c.Net {
				if nm.M.GetType() == pb.MsgSnap && nm.M.GetFrom() == id && nm.M.GetTo() == pr.ID {
					inFlight = true
				}
			}
			if !inFlight && c.Do(Step{Act: "ReportSnapshot", Node: id, To: pr.ID, Ok: false}) {
				did = true
			}
		}
	}
	return did
}

// mostUpToDate returns the running voter with the largest (last term, last index).
func (d *Driver) mostUpToDate() uint64 {
	var best uint64
	var bt, bi uint64
	for _, n := range d.upNodes() {
		s, perr := safeState(n.RN)
		if perr != "" {
			continue
		}
		voter := false // of either half of a joint configuration
		for _, set := range [][]uint64{s.ConfState.GetVoters(), s.ConfState.GetVotersOutgoing()} {
			for _, v := range set {
				if v == n.ID {
					voter = true
				}
			}
		}
		if !voter {
			continue
		}
		if best == 0 || s.LastTerm > bt || (s.LastTerm == bt && s.LastIndex > bi) {
			best, bt, bi = n.ID, s.LastTerm, s.LastIndex
		}
	}
	return best
}

func (d *Driver) maintainSnapshots() {
	for _, id := range d.c.IDs {
		n := d.c.up(id)
		if n == nil {
			continue
		}
		if _, hi := d.c.snapBounds(n); hi > 0 && d.needsSnapshot(n) {
			d.c.Do(Step{Act: "Snapshot", Node: id, K: hi})
		}
	}
}

func (d *Driver) needsSnapshot(n *AppNode) bool {
	s, perr := safeState(n.RN)
	if perr != "" || s.State != "StateLeader" {
		return false
	}
	snap, _ := n.St.Snapshot()
	for _, p := range s.Progress {
		if p.ID == n.ID {
			continue
		}
		if p.Next < s.FirstIndex || p.State == "StateSnapshot" {
			// is the stored snapshot usable for that follower?
			cs := snap.GetMetadata().GetConfState()
			member := false
			for _, set := range [][]uint64{cs.GetVoters(), cs.GetLearners(), cs.GetVotersOutgoing()} {
				for _, id := range set {
					if id == p.ID {
						member = true
					}
				}
			}
			if !member || snap.GetMetadata().GetIndex()+1 < s.FirstIndex {
				return true
			}
		}
	}
	return false
}

// committedMembers returns the membership of the newest configuration applied
// anywhere (the committed configuration as far as any application knows).
func (d *Driver) committedMembers() map[uint64]bool {
	var best uint64
	var cs *pb.ConfState
	for _, id := range d.c.IDs {
		n := d.c.Nodes[id]
		if !n.Created {
			continue
		}
		idx, c := n.confAsOf(n.AppliedDurable)
		if c != nil && (cs == nil || idx > best) && (len(c.Voters) > 0) {
			best, cs = idx, c
		}
	}
	out := map[uint64]bool{}
	if cs == nil {
		return out
	}
	for _, set := range [][]uint64{cs.Voters, cs.VotersOutgoing, cs.Learners, cs.LearnersNext} {
		for _, id := range set {
			out[id] = true
		}
	}
	return out
}

func sortedKeys(m map[uint64]bool) []uint64 {
	var out []uint64
	for k := range m {
		out = append(out, k)
	}
	sort.Slice(out, func(i, j int) bool { return out[i] < out[j] })
	return out
}
