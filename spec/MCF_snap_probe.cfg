SPECIFICATION Spec
CONSTANTS
  Node = {1, 2, 3}
  Weaken = {}
  MCCl <- ClSnap
  PszSet <- PszF
  CCSet <- NoCCsF
  Actors <- ActorsSnap
  Bound <- BoundSnap
INVARIANT Probe_snap
CONSTRAINT StateBound
VIEW View
CHECK_DEADLOCK FALSE
