----------------------------- MODULE RaftState ------------------------------
(* State variables of the cluster specification and the history variables    *)
(* the properties talk about.  The SAME definitions are used when TLC checks  *)
(* the model (Raft.tla) and when it evaluates the properties on states        *)
(* observed from the real implementation (TraceRaft.tla, Observe mode).       *)
EXTENDS RaftCore

CONSTANT Node            \* set of node ids, e.g. 1..5

VARIABLES
  cl,    \* static cluster description: [nodes : [Node -> Config record], conf : initial ConfState]
  node,  \* [Node -> volatile raft/RawNode state]        (DownNode when crashed / not started)
  disk,  \* [Node -> MemoryStorage contents]             (survives crashes)
  app,   \* [Node -> application state: Ready pipeline, storage-thread queues, durable applied index]
  net,   \* bag of in-flight messages: [message record -> count]
  hist,  \* history variables (below)
  act    \* the last event: what was called, with which arguments, results, and the acting node's pre-state

vars == <<cl, node, disk, app, net, hist, act>>

----------------------------------------------------------------------------
EmptyDisk == [hs |-> NoHS, snap |-> NoSnap, cidx |-> 0, cterm |-> 0, ents |-> <<>>]
\* localQ: acknowledgements of the append thread to the node itself that are still on their way back
\* to the raft loop (they may be overtaken by other input; raft guards against that by term and index)
IdleApp == [phase |-> "idle", rd |-> NoReady, appendQ |-> <<>>, applyQ |-> <<>>, localQ |-> <<>>, appliedDurable |-> 0,
            inc |-> 0, lastConfIdx |-> 0, appConf |-> EmptyConf, created |-> FALSE, sd |-> EmptyDisk]

NoAct == [name |-> "Init", node |-> 0, inc |-> 0, ret |-> "ok", panic |-> "", pre |-> DownNode,
          preDisk |-> EmptyDisk, preSD |-> EmptyDisk, msg |-> BaseMsg, sent |-> <<>>, stepped |-> <<>>, ents |-> <<>>,
          rd |-> NoReady, pid |-> 0, psz |-> 0, rid |-> 0, to |-> 0, k |-> 0, keep |-> FALSE, ok |-> FALSE,
          conf |-> EmptyConf, det |-> TRUE]

Cfg(i) == cl.nodes[i]

----------------------------------------------------------------------------
(* bag helpers                                                                *)
BagAdd(b, m) == IF m \in DOMAIN b THEN [b EXCEPT ![m] = @ + 1] ELSE b @@ (m :> 1)
BagDel(b, m) == IF m \notin DOMAIN b THEN b
                ELSE IF b[m] > 1 THEN [b EXCEPT ![m] = @ - 1]
                ELSE [x \in (DOMAIN b) \ {m} |-> b[x]]
RECURSIVE BagAddAll(_, _)
BagAddAll(b, ms) == IF ms = <<>> THEN b ELSE BagAddAll(BagAdd(b, Head(ms)), Tail(ms))
NoMid(m) == [m EXCEPT !.mid = 0]
NoMids(ms) == [k \in DOMAIN ms |-> NoMid(ms[k])]

----------------------------------------------------------------------------
(* log views used by the properties                                           *)
Up(i) == node[i].up
BaseIndex(n, d) == FirstIndex(n, d) - 1
BaseTerm(n, d) == ZeroTerm(LogTerm(n, d, BaseIndex(n, d)))
\* identity of an entry as far as the properties are concerned (term, type, payload)
Key(e) == [term |-> e.term, type |-> e.type, pid |-> e.pid, cc |-> e.cc, psz |-> e.psz]
HasIndex(n, d, k) == k >= FirstIndex(n, d) /\ k <= LastIndex(n, d)

\* what a disk alone holds (used for durability statements)
DiskHas(d, k) == k > d.cidx /\ k <= StLast(d)
DiskEntry(d, k) == d.ents[k - d.cidx]
\* disk d durably covers entry e at index k: holds it, or a snapshot/compaction point at or beyond k
Covers(d, k, e) == (DiskHas(d, k) /\ Key(DiskEntry(d, k)) = Key(e)) \/ d.cidx >= k \/ d.snap.index >= k

----------------------------------------------------------------------------
(* History variables.                                                          *)
(*  gc      : index -> Key of the first entry any node committed at that index *)
(*  gcBase  : index -> term, for snapshot bases installed/created              *)
(*  dl      : node -> [next : next index raft must hand to the application,    *)
(*                     inc  : incarnation it refers to]                        *)
(*  leaders : term -> set of <<node, incarnation>> that acted as leader        *)
(*  grants  : <<voter, term>> -> set of candidates a real vote became visible for *)
(*  votesRecv / preRecv : <<cand, inc, term>> -> voters whose grant reached it *)
(*  hsExp   : node -> last HardState exposed in a Ready of this incarnation    *)
(*  hsStart : node -> HardState the incarnation started from                   *)
(*  props   : pid -> [node, ret, atLeader]; propDeliv : pid -> #deliveries of a *)
(*            MsgProp carrying it to a leader                                  *)
(*  reads   : rid -> [node, maxc]  (max commit index exposed anywhere at issue)*)
(*  maxExposed : highest commit index any node ever exposed                    *)
(*  leadAge : node -> its own ticks since it became leader of its current term *)
(*  heard   : leader -> follower -> leader ticks since it last heard from it   *)
(*  outst   : <<leader, follower>> -> entry-bearing MsgApps outstanding in the *)
(*            current replicate epoch: seq of [index, bytes]                   *)
InitHist ==
  [gc |-> <<>>, gcBase |-> <<>>, dl |-> [i \in Node |-> [next |-> 1, inc |-> 0]],
   leaders |-> <<>>, grants |-> <<>>, votesRecv |-> <<>>, preRecv |-> <<>>,
   hsExp |-> [i \in Node |-> NoHS], hsStart |-> [i \in Node |-> NoHS],
   props |-> <<>>, propDeliv |-> <<>>, reads |-> <<>>, maxExposed |-> 0,
   leadAge |-> [i \in Node |-> 0], heard |-> [i \in Node |-> [j \in Node |-> 0]], sinceLead |-> [i \in Node |-> 1000],
   maxLeaderCommit |-> 0, hsExpPrev |-> [i \in Node |-> NoHS], dlPrev |-> [i \in Node |-> [next |-> 1, inc |-> 0]],
   cfgIdx |-> [i \in Node |-> 0], cfold |-> [upto |-> 0, st |-> EmptyCfg, points |-> <<>>, init |-> FALSE, twoVoterShrink |-> FALSE],
   outst |-> <<>>, uncAcc |-> [i \in Node |-> [valid |-> FALSE]],
   cnt |-> <<>>]

MapGet(f, k, dflt) == IF k \in DOMAIN f THEN f[k] ELSE dflt
MapPut(f, k, v) == IF k \in DOMAIN f THEN [f EXCEPT ![k] = v] ELSE f @@ (k :> v)
MapAddTo(f, k, x) == MapPut(f, k, MapGet(f, k, {}) \cup {x})

\* messages created by the library during this event (appended to msgs/after)
NewSeq(pre, post) == IF Len(post) >= Len(pre) /\ SubSeq(post, 1, Len(pre)) = pre
                     THEN SubSeq(post, Len(pre) + 1, Len(post)) ELSE post

\* gc update: the acting node's newly committed indexes that are in its log
RECURSIVE GcAdd(_, _, _, _, _)
GcAdd(gc, n, d, k, hi) ==
  IF k > hi THEN gc
  ELSE GcAdd(IF k \in DOMAIN gc \/ ~HasIndex(n, d, k) THEN gc
                ELSE gc @@ (k :> [key |-> Key(EntryAt(n, d, k)), at |-> n.term]), n, d, k + 1, hi)

RECURSIVE CountProp(_, _, _)
CountProp(pd, ents, k) ==
  IF k > Len(ents) THEN pd
  ELSE CountProp(IF ents[k].pid > 0 THEN MapPut(pd, ents[k].pid, MapGet(pd, ents[k].pid, 0) + 1) ELSE pd, ents, k + 1)

\* one record per proposed entry (a proposal call may carry several entries)
RECURSIVE PropsAdd(_, _, _, _, _, _)
PropsAdd(pr, ents, k, i, ret, atLeader) ==
  IF k > Len(ents) THEN pr
  ELSE PropsAdd(IF ents[k].pid > 0
                THEN MapPut(pr, ents[k].pid, [node |-> i, ret |-> ret, atLeader |-> atLeader, cc |-> ents[k].type # "N", psz |-> ents[k].psz])
                ELSE pr, ents, k + 1, i, ret, atLeader)

\* all grant messages made visible by this event: handed to the network, or
\* (self-votes) stepped back into the node after the vote was persisted
VisibleMsgs(a) == a.sent \o a.stepped

RECURSIVE GrantsAdd(_, _, _)
GrantsAdd(g, ms, k) ==
  IF k > Len(ms) THEN g
  ELSE GrantsAdd(IF ms[k].type = "VoteResp" /\ ~ms[k].reject
                 THEN MapAddTo(g, <<ms[k].from, ms[k].term>>, ms[k].to) ELSE g, ms, k + 1)

\* vote / pre-vote grants that reached candidate i in this event
RecvdResps(a) == IF a.name = "Deliver" THEN <<a.msg>> ELSE a.stepped
RECURSIVE RecvAdd(_, _, _, _, _, _)
RecvAdd(f, ms, k, i, inc, typ) ==
  IF k > Len(ms) THEN f
  ELSE RecvAdd(IF ms[k].type = typ /\ ~ms[k].reject /\ ms[k].to = i
               THEN MapAddTo(f, <<i, inc, ms[k].term>>, ms[k].from) ELSE f, ms, k + 1, i, inc, typ)

\* outstanding entry-bearing appends per (leader, follower)
NewAppsTo(newMsgs, f) == SelectSeq(newMsgs, LAMBDA m : m.type = "App" /\ m.to = f /\ Len(m.entries) > 0)
AppRec(m) == [index |-> m.index + Len(m.entries), bytes |-> PayloadBytes(m.entries)]
OutstNext(o, a, i, pre, post) ==
  LET newMsgs == IF a.name = "Ready" THEN <<>> ELSE NewSeq(pre.msgs, post.msgs)
      sameLead == pre.up /\ post.up /\ pre.role = "L" /\ post.role = "L" /\ pre.term = post.term
      upd(f) ==
        LET old == MapGet(o, <<i, f>>, <<>>)
            apps == [k \in DOMAIN NewAppsTo(newMsgs, f) |-> AppRec(NewAppsTo(newMsgs, f)[k])]
        IN  IF ~post.up \/ post.role # "L" \/ ~HasPr(post, f) \/ GetPr(post, f).state # "Replicate" THEN <<>>
            ELSE IF sameLead /\ HasPr(pre, f) /\ GetPr(pre, f).state = "Replicate"
                 THEN (IF a.name = "Deliver" /\ a.msg.type = "AppResp" /\ a.msg.from = f /\ ~a.msg.reject
                       THEN SelectSeq(old, LAMBDA r : r.index > a.msg.index) ELSE old) \o apps
                 ELSE apps
  IN  [p \in ((DOMAIN o) \ {q \in DOMAIN o : q[1] = i}) \cup {<<i, f>> : f \in Node} |->
         IF p[1] = i THEN upd(p[2]) ELSE o[p]]

\* incremental fold of the committed conf-change entries over the bootstrap
\* configuration (C10): points maps an index to the configuration in force
\* from that index on.
RECURSIVE CFoldAdvance(_, _)
CFoldAdvance(cf, gc) ==
  IF ~cf.init \/ (cf.upto + 1) \notin DOMAIN gc THEN cf
  ELSE LET k == cf.upto + 1
           e == gc[k].key
       IN  IF e.type = "N" THEN CFoldAdvance([cf EXCEPT !.upto = k], gc)
           ELSE LET r == CcApply(cf.st, e.cc)       \* an inapplicable change is vetoed by the application
                    st1 == IF r.ok THEN r.st ELSE cf.st
                    \* the documented exception of C15: a voter removed/demoted out of a two-voter set
                    shrink == Cardinality(cf.st.voters) = 2 /\ ~(cf.st.voters \subseteq st1.voters)
                IN  CFoldAdvance([cf EXCEPT !.upto = k, !.st = st1, !.points = MapPut(cf.points, k, st1),
                                            !.twoVoterShrink = @ \/ shrink], gc)
\* configuration in force after applying index k
FoldedConf(cf, k) ==
  LET ps == {p \in DOMAIN cf.points : p <= k}
  IN  cf.points[CHOOSE p \in ps : \A q \in ps : q <= p]

\* HistNext: new history from the old one, the event and the acting node's pre/post state.
HistNext(h, a, i, pre, post, preD, postD) ==
  LET up == post.up
      gc1 == IF up THEN GcAdd(h.gc, post, postD, FirstIndex(post, postD), post.commit) ELSE h.gc
      gcBase1 == IF up /\ post.usnap.has THEN MapPut(h.gcBase, post.usnap.index, post.usnap.term) ELSE h.gcBase
      \* what raft hands to the application
      \* (a restart continues after the *configured* applied index, wherever the node says its cursor is)
      dl1 == CASE a.name = "Restart" /\ up ->
                    [h.dl EXCEPT ![i] = [next |-> (IF a.k > post.applied THEN a.k ELSE post.applied) + 1, inc |-> a.inc]]
               [] a.name = "Boot" /\ up -> [h.dl EXCEPT ![i] = [next |-> post.applied + 1, inc |-> a.inc]]
               [] a.name = "Ready" /\ a.rd.has ->
                    LET nx0 == IF a.rd.snap.has THEN a.rd.snap.index + 1 ELSE h.dl[i].next
                        nx1 == IF Len(a.rd.committed) > 0 THEN Last(a.rd.committed).index + 1 ELSE nx0
                    IN  [h.dl EXCEPT ![i] = [next |-> nx1, inc |-> a.inc]]
               [] OTHER -> h.dl
      leaders1 == IF up /\ post.role = "L" THEN MapAddTo(h.leaders, post.term, <<i, a.inc>>) ELSE h.leaders
      grants1 == GrantsAdd(h.grants, VisibleMsgs(a), 1)
      votesRecv1 == RecvAdd(h.votesRecv, RecvdResps(a), 1, i, a.inc, "VoteResp")
      preRecv1 == RecvAdd(h.preRecv, RecvdResps(a), 1, i, a.inc, "PreVoteResp")
      hsExp1 == CASE a.name \in {"Restart", "Boot"} -> [h.hsExp EXCEPT ![i] = postD.hs]
                  [] a.name = "Ready" /\ a.rd.hs.has -> [h.hsExp EXCEPT ![i] = a.rd.hs]
                  [] OTHER -> h.hsExp
      hsStart1 == IF a.name \in {"Restart", "Boot"} THEN [h.hsStart EXCEPT ![i] = postD.hs] ELSE h.hsStart
      props1 == IF a.name \in {"Propose", "ProposeConfChange", "ProposeBatch"}
                THEN PropsAdd(h.props, a.ents, 1, i, a.ret, pre.role = "L")
                ELSE h.props
      propDeliv1 == IF a.name = "Deliver" /\ a.msg.type = "Prop" /\ pre.up /\ pre.role = "L"
                    THEN CountProp(h.propDeliv, a.msg.entries, 1) ELSE h.propDeliv
      maxExp1 == IF a.name = "Ready" /\ a.rd.hs.has /\ a.rd.hs.commit > h.maxExposed THEN a.rd.hs.commit ELSE h.maxExposed
      reads1 == IF a.name = "ReadIndex" THEN MapPut(h.reads, a.rid, [node |-> i, maxc |-> h.maxExposed]) ELSE h.reads
      becameLeader == up /\ post.role = "L" /\ ~(pre.up /\ pre.role = "L" /\ pre.term = post.term)
      leadAge1 == IF ~up \/ post.role # "L" THEN [h.leadAge EXCEPT ![i] = 0]
                  ELSE IF becameLeader THEN [h.leadAge EXCEPT ![i] = 0]
                  ELSE IF a.name = "Tick" THEN [h.leadAge EXCEPT ![i] = @ + 1] ELSE h.leadAge
      heard1 == IF ~up \/ post.role # "L" THEN h.heard
                ELSE IF becameLeader THEN [h.heard EXCEPT ![i] = [j \in Node |-> 0]]
                ELSE IF a.name = "Tick" THEN [h.heard EXCEPT ![i] = [j \in Node |-> h.heard[i][j] + 1]]
                ELSE IF a.name = "Deliver" /\ a.msg.type \in {"AppResp", "HeartbeatResp"} /\ a.msg.from \in Node
                     THEN [h.heard EXCEPT ![i][a.msg.from] = 0]
                \* the configuration changed (grown or shrunk: a node that did not matter before may now be
                \* indispensable): the bound restarts, the leader gets its full check interval under the new one
                ELSE IF a.name \in {"Apply", "ApplyThread"}
                     THEN [h.heard EXCEPT ![i] = [j \in Node |-> IF post.cfg # pre.cfg \/ (HasPr(post, j) /\ ~HasPr(pre, j)) THEN 0 ELSE h.heard[i][j]]]
                ELSE h.heard
      \* ticks since node i last heard from the leader it follows (append, heartbeat or snapshot of its term)
      sinceLead1 == IF ~up \/ a.name \in {"Restart", "Boot"} THEN [h.sinceLead EXCEPT ![i] = 1000]
                    ELSE IF a.name = "Deliver" /\ a.msg.type \in {"App", "Heartbeat", "Snap"} /\ a.msg.term = post.term
                            /\ post.role = "F" /\ post.lead = a.msg.from
                         THEN [h.sinceLead EXCEPT ![i] = 0]
                    ELSE IF a.name = "Tick" THEN [h.sinceLead EXCEPT ![i] = IF @ >= 1000 THEN 1000 ELSE @ + 1]
                    ELSE h.sinceLead
      outst1 == OutstNext(h.outst, a, i, pre, post)
      \* uncommitted-size accounting (C16).  The library's estimate is exact for the payload bytes of
      \* the leader's own-term entries that are not yet applied, as long as everything applied since
      \* the leadership began was itself appended in this leadership (or empty): entries of earlier
      \* leaderships are not counted when appended but are subtracted when applied (documented
      \* under-estimate).  `valid` tracks that hypothesis.
      ua == h.uncAcc[i]
      appliedOwn == \A k \in (pre.applied + 1)..post.applied :
                      HasIndex(post, postD, k) /\ (EntryAt(post, postD, k).term = post.term \/ EntryAt(post, postD, k).psz = 0)
      uncAcc1 ==
        IF ~up \/ post.role # "L" THEN [h.uncAcc EXCEPT ![i] = [ua EXCEPT !.valid = FALSE]]
        ELSE IF becameLeader THEN [h.uncAcc EXCEPT ![i] = [ua EXCEPT !.valid = TRUE]]
        ELSE IF pre.up /\ post.applied > pre.applied /\ ~appliedOwn THEN [h.uncAcc EXCEPT ![i] = [ua EXCEPT !.valid = FALSE]]
        ELSE h.uncAcc
      maxLC1 == IF up /\ post.role = "L" /\ post.commit > h.maxLeaderCommit THEN post.commit ELSE h.maxLeaderCommit
      cfgIdx1 == CASE a.name \in {"Restart", "Boot"} /\ up -> [h.cfgIdx EXCEPT ![i] = IF post.applied >= postD.snap.index THEN postD.snap.index ELSE 0]
                   \* (never backwards: with the storage threads, entries handed out before a snapshot arrived are
                   \* applied after the snapshot has already replaced the node's configuration)
                   [] a.name \in {"Apply", "ApplyThread"} /\ Len(a.ents) > 0 /\ up -> [h.cfgIdx EXCEPT ![i] = Max2(@, Last(a.ents).index)]
                   [] a.name = "Deliver" /\ a.msg.type = "Snap" /\ up /\ post.usnap.has /\ post.usnap.index = a.msg.snap.index
                        /\ ~(pre.usnap.has /\ pre.usnap.index = a.msg.snap.index) -> [h.cfgIdx EXCEPT ![i] = a.msg.snap.index]
                   [] OTHER -> h.cfgIdx
      cfold0 == IF ~h.cfold.init /\ a.name = "Boot" /\ Cfg(i).initial
                THEN LET st0 == CcRestore([voters |-> SeqSet(cl.conf.voters), outgoing |-> SeqSet(cl.conf.outgoing),
                                           learners |-> SeqSet(cl.conf.learners), learnersNext |-> SeqSet(cl.conf.learnersNext),
                                           autoLeave |-> cl.conf.autoLeave]).st
                     IN  [upto |-> postD.snap.index, st |-> st0, points |-> (postD.snap.index :> st0), init |-> TRUE,
                          twoVoterShrink |-> FALSE]
                ELSE h.cfold
      cfold1 == CFoldAdvance(cfold0, gc1)
      cname == IF a.name = "Deliver" /\ a.keep THEN "Dup" ELSE IF a.name = "CrashInAppend" THEN "Crash"
               ELSE IF a.name = "AppendThread" /\ a.keep THEN "Defer" ELSE a.name
      cnt1 == MapPut(h.cnt, cname, MapGet(h.cnt, cname, 0) + 1)
  IN  [h EXCEPT !.cnt = cnt1, !.maxLeaderCommit = maxLC1, !.hsExpPrev = h.hsExp, !.dlPrev = h.dl, !.cfgIdx = cfgIdx1, !.cfold = cfold1,
                !.gc = gc1, !.gcBase = gcBase1, !.dl = dl1, !.leaders = leaders1, !.grants = grants1,
                !.votesRecv = votesRecv1, !.preRecv = preRecv1, !.hsExp = hsExp1, !.hsStart = hsStart1,
                !.props = props1, !.propDeliv = propDeliv1, !.reads = reads1, !.maxExposed = maxExp1,
                !.leadAge = leadAge1, !.heard = heard1, !.sinceLead = sinceLead1, !.outst = outst1, !.uncAcc = uncAcc1]
=============================================================================
