SPECIFICATION Spec
CONSTANTS
  Node = {1, 2}
  Weaken = {"vote_once"}
  MCCl <- Cl2Sync
  PszSet <- Psz1
  CCSet <- NoCCs
  Actors <- ActorsTwo
  Bound <- BoundS2
INVARIANT AllInvariants
CONSTRAINT StateBound
VIEW View
CHECK_DEADLOCK FALSE
