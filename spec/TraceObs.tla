------------------------------ MODULE TraceObs ------------------------------
(* Observe mode (DESIGN.md 4.3): the specification's variables are ASSIGNED   *)
(* from the states logged by the real implementation, the history variables   *)
(* are computed by the specification's own HistNext, and every property       *)
(* formula of RaftProps is evaluated in every observed state.  Violations are *)
(* collected (and printed) instead of stopping TLC, so that one pass covers   *)
(* all traces of a run.  This pass does not depend on the behavioural part of *)
(* the specification.                                                         *)
EXTENDS Raft, Json, IOUtils

TraceFile == IOEnv.VERIF_TRACE
Trace == ndJsonDeserialize(TraceFile)

VARIABLES l, viol
ovars == <<vars, l, viol>>

DefaultCfg(i) ==
  [id |-> i, preVote |-> FALSE, checkQuorum |-> FALSE, async |-> FALSE, stepDownOnRemoval |-> FALSE,
   disableCCValidation |-> FALSE, disableForwarding |-> FALSE, electionTick |-> 3, heartbeatTick |-> 1,
   maxSizePerMsg |-> NoLimit, maxCommittedSize |-> 0, maxUncommittedSize |-> 0, maxInflightMsgs |-> 256,
   maxInflightBytes |-> 0, initial |-> FALSE, exists |-> FALSE]

ClampCfg(c) ==
  [c EXCEPT !.maxSizePerMsg = Min2(@, NoLimit), !.maxCommittedSize = Min2(@, NoLimit),
            !.maxUncommittedSize = Min2(@, NoLimit), !.maxInflightBytes = Min2(@, NoLimit)]

ClOf(e) ==
  [nodes |-> [i \in Node |->
                IF \E k \in DOMAIN e.cl.nodes : e.cl.nodes[k].id = i
                THEN LET k == CHOOSE k \in DOMAIN e.cl.nodes : e.cl.nodes[k].id = i
                     IN  ClampCfg(e.cl.nodes[k] @@ [exists |-> TRUE])
                ELSE DefaultCfg(i)],
   conf |-> e.cl.conf]

\* the model constants of Raft.tla are not used when observing traces
DummyActors == [x \in {} |-> {}]
DummyBound == [x \in {} |-> 0]
EmptySet == {}
EmptyCl == [nodes |-> [i \in Node |-> DefaultCfg(i)], conf |-> EmptyConf]

ObsInit ==
  /\ cl = EmptyCl
  /\ node = [i \in Node |-> DownNode]
  /\ disk = [i \in Node |-> EmptyDisk]
  /\ app = [i \in Node |-> IdleApp]
  /\ net = <<>>
  /\ hist = InitHist
  /\ act = NoAct
  /\ l = 0
  /\ viol = {}

HasF(r, f) == f \in DOMAIN r
ArgMsg(e) == IF HasF(e.a, "msg") THEN e.a.msg ELSE BaseMsg
ArgSeq(e, f) == IF HasF(e.a, f) THEN e.a[f] ELSE <<>>
ArgNum(e, f) == IF HasF(e.a, f) THEN e.a[f] ELSE 0
ArgBool(e, f) == IF HasF(e.a, f) THEN e.a[f] ELSE FALSE

ActOf(e) ==
  LET i == e.node IN
  [name |-> e.act, node |-> i, inc |-> e.inc, ret |-> e.ret, panic |-> e.panic,
   pre |-> IF i \in Node THEN node[i] ELSE DownNode,
   preDisk |-> IF i \in Node THEN disk[i] ELSE EmptyDisk,
   preSD |-> IF i \in Node THEN app[i].sd ELSE EmptyDisk,
   msg |-> ArgMsg(e),
   sent |-> ArgSeq(e, "msgs"),
   stepped |-> IF e.act = "Advance" /\ i \in Node THEN node[i].soa ELSE ArgSeq(e, "stepped"),
   ents |-> ArgSeq(e, "ents"),
   rd |-> IF HasF(e, "rd") THEN e.rd ELSE NoReady,
   pid |-> ArgNum(e, "pid"), psz |-> ArgNum(e, "psz"), rid |-> ArgNum(e, "rid"), to |-> ArgNum(e, "to"),
   k |-> IF e.act = "Restart" THEN ArgNum(e, "applied") ELSE ArgNum(e, "k"),
   keep |-> ArgBool(e, "keep"), ok |-> ArgBool(e, "ok"),
   conf |-> IF HasF(e.a, "conf") THEN e.a.conf ELSE EmptyConf, det |-> e.det]

\* sd: the synced image of the storage (what certainly survives a crash); equals the live
\* storage unless writes that need no fsync are outstanding
AppOf(e, old) ==
  [phase |-> e.p.phase, appendQ |-> e.p.appendQ, applyQ |-> e.p.applyQ, localQ |-> e.p.localQ, appliedDurable |-> e.p.appliedDurable,
   inc |-> e.p.inc, lastConfIdx |-> e.p.lastConfIdx, appConf |-> e.p.appConf, created |-> e.p.created,
   rd |-> IF HasF(e, "rd") THEN e.rd ELSE IF e.p.phase = "idle" THEN NoReady ELSE old.rd,
   sd |-> IF HasF(e.p, "sd") THEN e.p.sd ELSE e.d]

NetOf(e) ==
  LET added == BagAddAll(net, NoMids(ArgSeq(e, "msgs")))
  IN  IF e.act = "Drop" \/ (e.act = "Deliver" /\ ~ArgBool(e, "keep")) THEN BagDel(added, NoMid(ArgMsg(e))) ELSE added

InvNames ==
  {"C01_CommittedStable", "C01_AppliedAgree", "C01_ApplyAgree",
   "C02_OneLeaderPerTerm", "C02_OneVotePerTerm", "C02_VoteOnlyUpToDate", "C02_LeaderHasQuorum", "C02_RestartKeepsVote",
   "C03_LogMatching",
   "C04_LeaderComplete", "C04_NoOverwrite",
   "C05_VoteDurable", "C05_AckDurable", "C05_SelfAckDurable", "C05_RestartFromDisk",
   "C06_CommitWithinLog", "C06_LeaderCommitBacked", "C06_FollowerCommit",
   "C07_DurableMono", "C07_ExposedMono", "C07_VolatileMono", "C07_RestartFromDisk", "C07_NoActBelowStart",
   "C08_Contiguous", "C08_WithinCommit", "C08_StableOnlyAsync", "C08_NotDuringSnap", "C08_SnapshotForward",
   "C09_NoRollback", "C09_ExactBase", "C09_IgnoreStale", "C09_NoFork", "C09_SnapPrefixCommitted",
   "C10_ConfigIsFold", "C10_OnePending", "C10_NoCampaignUnapplied", "C10_AutoLeave",
   "C11_ReadIndexFresh", "C11_ServedByRealLeader",
   "C14_NoPanic", "C15_Converged",
   "C16_MsgSizeBound", "C16_InflightBound", "C16_NoAppendDuringSnapshot", "C16_UncommittedBound", "C16_DropIffOver",
   "C17_PreVoteBeforeTerm", "C17_PreVoteNoStateChange", "C17_LeaseHolds", "C17_LeaseFromContact", "C17_NoCampaignInLease", "C17_CheckQuorumStepDown",
   "C19_SameOutputs",
   "C20_NothingInvented", "C20_AtMostOncePerDelivery", "C20_ProposedAtLeaderOnce", "C20_QueuedIntact", "C20_ForwardIntact", "C20_DroppedMeansDropped"}

Holds(name) ==
  CASE name = "C01_CommittedStable" -> C01_CommittedStable
    [] name = "C01_AppliedAgree" -> C01_AppliedAgree
    [] name = "C01_ApplyAgree" -> C01_ApplyAgree
    [] name = "C02_OneLeaderPerTerm" -> C02_OneLeaderPerTerm
    [] name = "C02_OneVotePerTerm" -> C02_OneVotePerTerm
    [] name = "C02_VoteOnlyUpToDate" -> C02_VoteOnlyUpToDate
    [] name = "C02_LeaderHasQuorum" -> C02_LeaderHasQuorum
    [] name = "C02_RestartKeepsVote" -> C02_RestartKeepsVote
    [] name = "C03_LogMatching" -> C03_LogMatching
    [] name = "C04_LeaderComplete" -> C04_LeaderComplete
    [] name = "C04_NoOverwrite" -> C04_NoOverwrite
    [] name = "C05_VoteDurable" -> C05_VoteDurable
    [] name = "C05_AckDurable" -> C05_AckDurable
    [] name = "C05_SelfAckDurable" -> C05_SelfAckDurable
    [] name = "C05_RestartFromDisk" -> C05_RestartFromDisk
    [] name = "C06_CommitWithinLog" -> C06_CommitWithinLog
    [] name = "C06_LeaderCommitBacked" -> C06_LeaderCommitBacked
    [] name = "C06_FollowerCommit" -> C06_FollowerCommit
    [] name = "C07_DurableMono" -> C07_DurableMono
    [] name = "C07_ExposedMono" -> C07_ExposedMono
    [] name = "C07_VolatileMono" -> C07_VolatileMono
    [] name = "C07_RestartFromDisk" -> C07_RestartFromDisk
    [] name = "C07_NoActBelowStart" -> C07_NoActBelowStart
    [] name = "C08_Contiguous" -> C08_Contiguous
    [] name = "C08_WithinCommit" -> C08_WithinCommit
    [] name = "C08_StableOnlyAsync" -> C08_StableOnlyAsync
    [] name = "C08_NotDuringSnap" -> C08_NotDuringSnap
    [] name = "C08_SnapshotForward" -> C08_SnapshotForward
    [] name = "C09_NoRollback" -> C09_NoRollback
    [] name = "C09_ExactBase" -> C09_ExactBase
    [] name = "C09_IgnoreStale" -> C09_IgnoreStale
    [] name = "C09_NoFork" -> C09_NoFork
    [] name = "C09_SnapPrefixCommitted" -> C09_SnapPrefixCommitted
    [] name = "C10_ConfigIsFold" -> C10_ConfigIsFold
    [] name = "C10_OnePending" -> C10_OnePending
    [] name = "C10_NoCampaignUnapplied" -> C10_NoCampaignUnapplied
    [] name = "C10_AutoLeave" -> C10_AutoLeave
    [] name = "C11_ReadIndexFresh" -> C11_ReadIndexFresh
    [] name = "C11_ServedByRealLeader" -> C11_ServedByRealLeader
    [] name = "C14_NoPanic" -> C14_NoPanic
    [] name = "C15_Converged" -> C15_Converged
    [] name = "C16_MsgSizeBound" -> C16_MsgSizeBound
    [] name = "C16_InflightBound" -> C16_InflightBound
    [] name = "C16_NoAppendDuringSnapshot" -> C16_NoAppendDuringSnapshot
    [] name = "C16_UncommittedBound" -> C16_UncommittedBound
    [] name = "C16_DropIffOver" -> C16_DropIffOver
    [] name = "C17_PreVoteBeforeTerm" -> C17_PreVoteBeforeTerm
    [] name = "C17_PreVoteNoStateChange" -> C17_PreVoteNoStateChange
    [] name = "C17_LeaseHolds" -> C17_LeaseHolds
    [] name = "C17_LeaseFromContact" -> C17_LeaseFromContact
    [] name = "C17_NoCampaignInLease" -> C17_NoCampaignInLease
    [] name = "C17_CheckQuorumStepDown" -> C17_CheckQuorumStepDown
    [] name = "C19_SameOutputs" -> C19_SameOutputs
    [] name = "C20_NothingInvented" -> C20_NothingInvented
    [] name = "C20_AtMostOncePerDelivery" -> C20_AtMostOncePerDelivery
    [] name = "C20_ProposedAtLeaderOnce" -> C20_ProposedAtLeaderOnce
    [] name = "C20_DroppedMeansDropped" -> C20_DroppedMeansDropped
    [] name = "C20_QueuedIntact" -> C20_QueuedIntact
    [] name = "C20_ForwardIntact" -> C20_ForwardIntact

\* The other formulas assume a structurally well-formed log; on a malformed
\* log only C03_WellFormed is reported for that state.
\* optional selection of formulas (JSON array of names in the file named by VERIF_INVS)
InvSel == IF "VERIF_INVS" \in DOMAIN IOEnv /\ IOEnv.VERIF_INVS # ""
          THEN SeqSet(JsonDeserialize(IOEnv.VERIF_INVS)) \cap InvNames ELSE InvNames
\* "Stabilized" events close a fault-free suffix that was executed without step-by-step logging:
\* each carries one node's final state; only the convergence formula (and no-panic) is meaningful there.
Failing == IF A.name = "Stabilized" THEN {nm \in InvSel \cap {"C15_Converged", "C14_NoPanic"} : ~Holds(nm)}
           ELSE IF ~C03_WellFormed THEN {"C03_WellFormed"} ELSE {nm \in InvSel : ~Holds(nm)}

\* Witness predicates of known findings (known_findings.json): a violation whose state satisfies
\* one is tagged, so that the orchestrator reports it as KNOWN-FINDING instead of VIOLATION.
\* (No finding is open at present: F7, the last one, was repaired; the witness that used to tag it is kept
\* as a comment in DESIGN.md 13.4.  A tag is only ever honoured for an entry with status "known".)
KFTags(nm) == <<>>

\* ---- Conform mode: the specification's own transition, applied to the observed pre-state,
\* must yield the observed post-state (node record, disk record, return value, Ready contents).
\* A disagreement is DRIFT (the specification misdescribes the code or the code changed its
\* behaviour): reported and counted, never a property verdict.
ConformActs == {"Tick", "Campaign", "Propose", "ProposeConfChange", "ProposeBatch", "ReadIndex", "TransferLeader", "ForgetLeader",
                "ReportUnreachable", "ReportSnapshot", "Deliver", "Ready", "PersistEntries", "PersistHardState",
                "PersistSnapshot", "Send", "Apply", "Advance", "AppendThread", "LocalResp", "CrashInAppend", "ApplyThread",
                "Snapshot", "Compact", "Crash", "Restart", "Boot"}
DoConform == "VERIF_CONFORM" \in DOMAIN IOEnv /\ IOEnv.VERIF_CONFORM = "1"
DiffFields(x, y) == {f \in DOMAIN x : f \notin DOMAIN y \/ x[f] # y[f]}
Drift(e) ==
  IF ~DoConform \/ e.node \notin Node \/ e.act \notin ConformActs \/ e.panic # "" THEN {}
  ELSE LET i == e.node
           a == ActOf(e)
           eff == Effect(i, a, IF e.n.up THEN e.n.rto ELSE 0, e.d)
           want == Norm(Cfg(i), eff.n, eff.d)
           nd == IF e.n.up = want.up THEN {<<"n", f>> : f \in DiffFields(want, e.n)} ELSE {<<"n", "up">>}
           dd == {<<"d", f>> : f \in DiffFields(eff.d, e.d)}
           rr == IF eff.ret # e.ret THEN {<<"ret", eff.ret>>} ELSE {}
           rdd == IF e.act = "Ready" /\ HasF(e, "rd") THEN {<<"rd", f>> : f \in DiffFields(eff.rd, e.rd)} ELSE {}
       IN  nd \cup dd \cup rr \cup rdd

\* development aid: the specification's and the implementation's value of each drifting field
DriftDetail(e) ==
  LET i == e.node
      a == ActOf(e)
      eff == Effect(i, a, IF e.n.up THEN e.n.rto ELSE 0, e.d)
      want == Norm(Cfg(i), eff.n, eff.d)
      Short(v, f) == IF f \in {"msgs", "after", "soa", "pendingReads"}
                     THEN [k \in DOMAIN v |-> <<v[k].type, v[k].from, v[k].to, "t", v[k].term, "i", v[k].index, "lt", v[k].logTerm,
                                                "c", v[k].commit, v[k].reject, "h", v[k].hint, Len(v[k].entries), v[k].ctxKind, v[k].ctxVal, v[k].snap.index>>]
                     ELSE IF f = "uents" THEN [k \in DOMAIN v |-> <<v[k].index, v[k].term, v[k].type, v[k].pid, v[k].sz, v[k].psz>>]
                     ELSE v
  IN  [nf \in {f \in DiffFields(want, e.n) : TRUE} |-> [spec |-> Short(want[nf], nf), impl |-> Short(e.n[nf], nf)]]
ShowDetail == "VERIF_DRIFT_DETAIL" \in DOMAIN IOEnv /\ IOEnv.VERIF_DRIFT_DETAIL = "1"

ObsNext ==
  /\ l < Len(Trace)
  /\ l' = l + 1
  /\ LET e == Trace[l + 1]
         i == e.node
     IN  IF e.act = "Init"
         THEN /\ cl' = ClOf(e)
              /\ node' = [j \in Node |-> DownNode]
              /\ disk' = [j \in Node |-> EmptyDisk]
              /\ app' = [j \in Node |-> IdleApp]
              /\ net' = <<>>
              /\ hist' = InitHist
              /\ act' = [NoAct EXCEPT !.name = "Init"]
         ELSE /\ cl' = cl
              /\ act' = ActOf(e)
              /\ net' = NetOf(e)
              /\ IF i \in Node
                 THEN /\ node' = [node EXCEPT ![i] = e.n]
                      /\ disk' = [disk EXCEPT ![i] = e.d]
                      /\ app' = [app EXCEPT ![i] = AppOf(e, app[i])]
                      /\ hist' = HistNext(hist, ActOf(e), i, node[i], e.n, disk[i], e.d)
                 ELSE /\ UNCHANGED <<node, disk, app, hist>>
  /\ LET dr == Drift(Trace[l + 1])
     IN  dr # {} => /\ PrintT(<<"OBS-DRIFT", "line", l + 1, "tr", Trace[l + 1].tr, "act", Trace[l + 1].act, "node", Trace[l + 1].node, "fields", dr>>)
                    /\ (ShowDetail /\ Trace[l + 1].n.up) => PrintT(<<"DETAIL", DriftDetail(Trace[l + 1])>>)
  /\ LET bad == Failing'
     IN  /\ viol' = viol \cup {<<l + 1, nm>> : nm \in bad}
         /\ \A nm \in bad : PrintT(<<"OBS-VIOLATION", nm, "line", l + 1, "tr", Trace[l + 1].tr, "act", Trace[l + 1].act, "node", Trace[l + 1].node>> \o KFTags(nm)')

\* every observed state is identified by its position in the trace file
ObsView == l

ObsSpec == ObsInit /\ [][ObsNext]_ovars

\* Reached the end of the trace file: print a summary line the orchestrator parses.
Done == l = Len(Trace) => PrintT(<<"OBS-DONE", "events", l, "violations", Cardinality(viol)>>)
=============================================================================
