-------------------------------- MODULE MC3 ---------------------------------
(* Three voters: time-boxed breadth-first search (E2), every behaviour up to   *)
(* the depth TLC completes inside the box is explored.                         *)
EXTENDS Raft

NodeCfg3(i, async, preVote, checkQuorum) ==
  [id |-> i, preVote |-> preVote, checkQuorum |-> checkQuorum, async |-> async, stepDownOnRemoval |-> FALSE,
   disableCCValidation |-> FALSE, disableForwarding |-> FALSE, electionTick |-> 2, heartbeatTick |-> 1,
   maxSizePerMsg |-> NoLimit, maxCommittedSize |-> 0, maxUncommittedSize |-> 0, maxInflightMsgs |-> 2,
   maxInflightBytes |-> 0, initial |-> TRUE, exists |-> TRUE]
Conf3 == [voters |-> <<1, 2, 3>>, outgoing |-> <<>>, learners |-> <<>>, learnersNext |-> <<>>, autoLeave |-> FALSE]
Cl3Sync == [nodes |-> [i \in Node |-> NodeCfg3(i, FALSE, FALSE, FALSE)], conf |-> Conf3]
Cl3Async == [nodes |-> [i \in Node |-> NodeCfg3(i, TRUE, FALSE, FALSE)], conf |-> Conf3]
Actors3 == [Tick |-> {}, Campaign |-> {1, 2}, Propose |-> {1, 2}, ProposeConfChange |-> {}, ReadIndex |-> {},
            Crash |-> {1, 3}, TransferLeader |-> {}, ForgetLeader |-> {}, ReportUnreachable |-> {}, ReportSnapshot |-> {}]
Bound3 == [Tick |-> 0, Campaign |-> 2, Propose |-> 1, ProposeConfChange |-> 0, ReadIndex |-> 0, Crash |-> 1, Dup |-> 1, Drop |-> 0,
           Snapshot |-> 0, Compact |-> 0, TransferLeader |-> 0, ForgetLeader |-> 0, ReportUnreachable |-> 0, ReportSnapshot |-> 0, Defer |-> 0, Atomic |-> 0,
           Term |-> 2, Index |-> 3, Net |-> 5]
Psz3 == {3}
NoCCs3 == {}
=============================================================================
