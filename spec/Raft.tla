-------------------------------- MODULE Raft --------------------------------
(* The cluster specification: real-API-shaped actions over the functional core  *)
(* (RaftCore), the contract-following application (Ready / persist / send /     *)
(* apply / Advance, or the append and apply threads), an unreliable bag network *)
(* and crashes.  One action per public RawNode call or application sub-step     *)
(* (DESIGN.md 3.4); the harness executes exactly these actions on real          *)
(* RawNodes.                                                                    *)
EXTENDS RaftProps

CONSTANTS
  MCCl,          \* the cluster description (same shape as the harness' Init event)
  PszSet,        \* payload sizes a proposal may have
  CCSet,         \* conf changes that may be proposed
  Actors,        \* [Campaign, Propose, Crash, Tick, ... -> SUBSET Node]: who may perform what
  Bound          \* [Tick, Campaign, Propose, ProposeConfChange, ReadIndex, Crash, Dup, Drop, Snapshot, Compact,
                 \*  TransferLeader, ForgetLeader, ReportUnreachable, ReportSnapshot, Term, Index, Net -> Nat]

BootIndex == 1
BootTerm == 1
BootDisk == [hs |-> NoHS, snap |-> [has |-> TRUE, index |-> BootIndex, term |-> BootTerm, conf |-> MCCl.conf],
             cidx |-> BootIndex, cterm |-> BootTerm, ents |-> <<>>]

\* deterministic, pairwise distinct election timeouts (the model does not branch on the draw)
RTO(i) == Cfg(i).electionTick + ((i - 1) % Cfg(i).electionTick)

Cnt(name) == MapGet(hist.cnt, name, 0)
May(name, i) == i \in Actors[name] /\ Cnt(name) < Bound[name]

MkAct(name, i) == [NoAct EXCEPT !.name = name, !.node = i, !.inc = app[i].inc, !.pre = node[i], !.preDisk = disk[i],
                                 !.preSD = app[i].sd]

\* common tail of every action on node i
Emit(i, a, n2, d2, p2, net2) ==
  LET n3 == Norm(Cfg(i), n2, d2) IN
  /\ node' = [node EXCEPT ![i] = n3]
  /\ disk' = [disk EXCEPT ![i] = d2]
  /\ app' = [app EXCEPT ![i] = [p2 EXCEPT !.sd = d2]]
  /\ net' = net2
  /\ act' = a
  /\ hist' = HistNext(hist, a, i, node[i], n3, disk[i], d2)
  /\ cl' = cl

----------------------------------------------------------------------------
RECURSIVE BootHist(_, _, _, _, _)
BootHist(h, ids, k, nodes, disks) ==
  IF k > Len(ids) THEN h
  ELSE LET i == ids[k]
           a == [NoAct EXCEPT !.name = "Boot", !.node = i]
       IN  BootHist(HistNext(h, a, i, DownNode, nodes[i], EmptyDisk, disks[i]), ids, k + 1, nodes, disks)

Init ==
  /\ cl = MCCl
  /\ LET nodes == [i \in Node |-> IF MCCl.nodes[i].initial
                                  THEN Norm(MCCl.nodes[i], NewRawNode(MCCl.nodes[i], BootDisk, 0,
                                            MCCl.nodes[i].electionTick + ((i - 1) % MCCl.nodes[i].electionTick)), BootDisk)
                                  ELSE DownNode]
         disks == [i \in Node |-> IF MCCl.nodes[i].initial THEN BootDisk ELSE EmptyDisk]
     IN  /\ node = nodes
         /\ disk = disks
         /\ app = [i \in Node |-> IF MCCl.nodes[i].initial
                                  THEN [IdleApp EXCEPT !.created = TRUE, !.appliedDurable = BootIndex,
                                                       !.lastConfIdx = BootIndex, !.appConf = MCCl.conf, !.sd = BootDisk]
                                  ELSE IdleApp]
         /\ hist = BootHist(InitHist, SortedSeq({i \in Node : MCCl.nodes[i].initial}), 1, nodes, disks)
  /\ net = <<>>
  /\ act = NoAct

----------------------------------------------------------------------------
(* local API calls                                                            *)
TickA(i) ==
  /\ Up(i) /\ May("Tick", i)
  /\ Emit(i, MkAct("Tick", i), Tick(Cfg(i), node[i], disk[i], RTO(i)), disk[i], app[i], net)

CampaignA(i) ==
  /\ Up(i) /\ May("Campaign", i)
  /\ LET r == Step(Cfg(i), node[i], disk[i], Msg("Hup", 0), RTO(i))
     IN  Emit(i, MkAct("Campaign", i), r.n, disk[i], app[i], net)

NextPid == Cnt("Propose") + Cnt("ProposeConfChange") + 1

ProposeA(i, psz) ==
  /\ Up(i) /\ May("Propose", i)
  /\ LET e == [EmptyEntry EXCEPT !.pid = NextPid, !.psz = psz, !.sz = IF psz = 0 THEN 0 ELSE psz + 2]
         m == [Msg("Prop", 0) EXCEPT !.from = i, !.entries = <<e>>]
         r == Step(Cfg(i), node[i], disk[i], m, RTO(i))
     IN  Emit(i, [MkAct("Propose", i) EXCEPT !.pid = NextPid, !.psz = psz, !.ents = <<e>>, !.ret = IF r.err = "" THEN "ok" ELSE r.err],
              r.n, disk[i], app[i], net)

\* encoded size of a conf change payload: a model-level stand-in (2 bytes per change + 2)
CCPsz(cc) == 2 + 2 * Len(cc.changes)
ProposeConfChangeA(i, cc) ==
  /\ Up(i) /\ May("ProposeConfChange", i)
  /\ LET e == [EmptyEntry EXCEPT !.type = "CC2", !.cc = cc, !.pid = NextPid, !.psz = CCPsz(cc), !.sz = CCPsz(cc) + 4]
         m == [Msg("Prop", 0) EXCEPT !.entries = <<e>>]
         r == Step(Cfg(i), node[i], disk[i], m, RTO(i))
     IN  Emit(i, [MkAct("ProposeConfChange", i) EXCEPT !.pid = NextPid, !.ents = <<e>>, !.ret = IF r.err = "" THEN "ok" ELSE r.err],
              r.n, disk[i], app[i], net)

ReadIndexA(i) ==
  /\ Up(i) /\ May("ReadIndex", i)
  /\ LET rid == Cnt("ReadIndex") + 1
         m == [Msg("ReadIndex", 0) EXCEPT !.entries = <<ReadEntry(rid)>>]
         r == Step(Cfg(i), node[i], disk[i], m, RTO(i))
     IN  Emit(i, [MkAct("ReadIndex", i) EXCEPT !.rid = rid, !.ents = m.entries], r.n, disk[i], app[i], net)

TransferLeaderA(i, j) ==
  /\ Up(i) /\ May("TransferLeader", i)
  /\ LET r == Step(Cfg(i), node[i], disk[i], [Msg("TransferLeader", 0) EXCEPT !.from = j], RTO(i))
     IN  Emit(i, [MkAct("TransferLeader", i) EXCEPT !.to = j], r.n, disk[i], app[i], net)

ForgetLeaderA(i) ==
  /\ Up(i) /\ May("ForgetLeader", i)
  /\ LET r == Step(Cfg(i), node[i], disk[i], Msg("ForgetLeader", 0), RTO(i))
     IN  Emit(i, MkAct("ForgetLeader", i), r.n, disk[i], app[i], net)

ReportUnreachableA(i, j) ==
  /\ Up(i) /\ May("ReportUnreachable", i)
  /\ LET r == Step(Cfg(i), node[i], disk[i], [Msg("Unreachable", 0) EXCEPT !.from = j], RTO(i))
     IN  Emit(i, [MkAct("ReportUnreachable", i) EXCEPT !.to = j], r.n, disk[i], app[i], net)

ReportSnapshotA(i, j, ok) ==
  /\ Up(i) /\ May("ReportSnapshot", i)
  /\ LET r == Step(Cfg(i), node[i], disk[i], [Msg("SnapStatus", 0) EXCEPT !.from = j, !.reject = ~ok], RTO(i))
     IN  Emit(i, [MkAct("ReportSnapshot", i) EXCEPT !.to = j], r.n, disk[i], app[i], net)

----------------------------------------------------------------------------
(* network                                                                    *)
DeliverA(m, keep) ==
  /\ m \in DOMAIN net
  /\ m.to \in Node /\ Up(m.to)
  /\ keep => Cnt("Dup") < Bound["Dup"]
  /\ LET i == m.to
         r == RawStep(Cfg(i), node[i], disk[i], m, RTO(i))
     IN  Emit(i, [MkAct("Deliver", i) EXCEPT !.msg = m, !.keep = keep, !.ret = IF r.err = "" THEN "ok" ELSE r.err],
              r.n, disk[i], app[i], IF keep THEN net ELSE BagDel(net, m))

DropA(m) ==
  /\ m \in DOMAIN net /\ Cnt("Drop") < Bound["Drop"]
  /\ net' = BagDel(net, m)
  /\ act' = [NoAct EXCEPT !.name = "Drop", !.msg = m]
  /\ hist' = [hist EXCEPT !.cnt = MapPut(@, "Drop", Cnt("Drop") + 1)]
  /\ UNCHANGED <<cl, node, disk, app>>

----------------------------------------------------------------------------
(* the application: Ready handling                                            *)
ReadyA(i) ==
  /\ Up(i) /\ app[i].phase = "idle" /\ HasReady(Cfg(i), node[i], disk[i])
  /\ LET r == ReadyOf(Cfg(i), node[i], disk[i])
     IN  Emit(i, [MkAct("Ready", i) EXCEPT !.rd = r.rd], r.n, disk[i],
              [app[i] EXCEPT !.phase = "ready", !.rd = r.rd], net)

\* snapshot + HardState are one atomic write; the application state machine is restored with it
PersistSnapHS(d, snap, hs) ==
  LET d1 == IF snap.has THEN StApplySnapshot(d, snap) ELSE d
  IN  IF hs.has THEN [d1 EXCEPT !.hs = hs] ELSE d1
AppAfterSnap(p, snap) ==
  IF snap.has /\ snap.index > p.appliedDurable
  THEN [p EXCEPT !.appliedDurable = snap.index, !.lastConfIdx = snap.index, !.appConf = snap.conf]
  ELSE p

PersistEntriesA(i) ==
  /\ Up(i) /\ ~Cfg(i).async /\ app[i].phase = "ready" /\ ~app[i].rd.snap.has
  /\ Emit(i, [MkAct("PersistEntries", i) EXCEPT !.ents = app[i].rd.ents], node[i],
          StAppend(disk[i], app[i].rd.ents), [app[i] EXCEPT !.phase = "ents"], net)

PersistHardStateA(i) ==
  /\ Up(i) /\ ~Cfg(i).async /\ app[i].phase = "ents"
  /\ Emit(i, MkAct("PersistHardState", i), node[i], PersistSnapHS(disk[i], NoSnap, app[i].rd.hs),
          [app[i] EXCEPT !.phase = "hs"], net)

PersistSnapshotA(i) ==
  /\ Up(i) /\ ~Cfg(i).async /\ app[i].phase = "ready" /\ app[i].rd.snap.has
  /\ Emit(i, [MkAct("PersistSnapshot", i) EXCEPT !.ents = app[i].rd.ents], node[i],
          StAppend(PersistSnapHS(disk[i], app[i].rd.snap, app[i].rd.hs), app[i].rd.ents),
          [AppAfterSnap(app[i], app[i].rd.snap) EXCEPT !.phase = "hs"], net)

IsNetMsg(m) == ~IsLocalTarget(m.to)
SendA(i) ==
  /\ Up(i)
  /\ IF Cfg(i).async
     THEN /\ app[i].phase = "ready"
          /\ LET ms == app[i].rd.msgs
                 out == SelectSeq(ms, IsNetMsg)
             IN  Emit(i, [MkAct("Send", i) EXCEPT !.sent = out], node[i], disk[i],
                      [app[i] EXCEPT !.phase = "idle", !.rd = NoReady,
                                     !.appendQ = @ \o SelectSeq(ms, LAMBDA m : m.to = AppendThread),
                                     !.applyQ = @ \o SelectSeq(ms, LAMBDA m : m.to = ApplyThread)],
                      BagAddAll(net, out))
     ELSE /\ app[i].phase = "hs"
          /\ Emit(i, [MkAct("Send", i) EXCEPT !.sent = app[i].rd.msgs], node[i], disk[i],
                  [app[i] EXCEPT !.phase = "sent"], BagAddAll(net, app[i].rd.msgs))

\* hand committed entries to the state machine; conf changes go through ApplyConfChange (with the veto)
RECURSIVE ApplyEntsK(_, _, _, _, _, _)
ApplyEntsK(c, n, d, ents, k, rto) ==
  IF k > Len(ents) THEN n
  ELSE LET e == ents[k]
           n1 == IF e.type = "N" \/ ~CCApplicable(n, e.cc) THEN n ELSE ApplyConfChange(c, n, d, e.cc, rto)
       IN  ApplyEntsK(c, n1, d, ents, k + 1, rto)
AppAfterApply(p, n2, ents) ==
  IF ents = <<>> THEN p
  ELSE LET ccs == SelectSeq(ents, LAMBDA e : e.type # "N")
           p1 == [p EXCEPT !.appliedDurable = Max2(@, Last(ents).index)]
       IN  IF ccs = <<>> THEN p1 ELSE [p1 EXCEPT !.lastConfIdx = Last(ccs).index, !.appConf = n2.cfg]

ApplyA(i) ==
  /\ Up(i) /\ ~Cfg(i).async /\ app[i].phase = "sent"
  /\ LET ents == app[i].rd.committed
         n2 == ApplyEntsK(Cfg(i), node[i], disk[i], ents, 1, RTO(i))
     IN  Emit(i, [MkAct("Apply", i) EXCEPT !.ents = ents], n2, disk[i],
              [AppAfterApply(app[i], n2, ents) EXCEPT !.phase = "applied"], net)

AdvanceA(i) ==
  /\ Up(i) /\ ~Cfg(i).async /\ app[i].phase = "applied"
  /\ Emit(i, [MkAct("Advance", i) EXCEPT !.stepped = node[i].soa], Advance(Cfg(i), node[i], disk[i], RTO(i)), disk[i],
          [app[i] EXCEPT !.phase = "idle", !.rd = NoReady], net)

----------------------------------------------------------------------------
(* storage threads (AsyncStorageWrites)                                       *)
\* keep: the acknowledgements addressed to the node itself are not stepped at once but queued (in
\* order) for LocalRespA; once something is queued, later acknowledgements queue up behind it
AppendThreadA(i, keep) ==
  /\ Up(i) /\ app[i].appendQ # <<>>
  /\ keep => Cnt("Defer") < Bound["Defer"]
  /\ LET m == Head(app[i].appendQ)
         hs == HS(m.term, m.vote, m.commit)
         d2 == IF m.snap.has THEN StAppend(PersistSnapHS(disk[i], m.snap, hs), m.entries)
               ELSE PersistSnapHS(StAppend(disk[i], m.entries), NoSnap, hs)
         self == SelectSeq(m.responses, LAMBDA r : r.to = i)
         out == SelectSeq(m.responses, LAMBDA r : r.to # i)
         deferred == keep \/ app[i].localQ # <<>>
         n2 == IF deferred THEN node[i] ELSE StepAllK(Cfg(i), node[i], d2, self, 1, RTO(i))
     IN  Emit(i, [MkAct("AppendThread", i) EXCEPT !.msg = m, !.stepped = IF deferred THEN <<>> ELSE self, !.sent = out, !.k = 99,
                                                   !.keep = deferred],
              n2, d2,
              [AppAfterSnap(app[i], m.snap) EXCEPT !.appendQ = Tail(@), !.localQ = IF deferred THEN @ \o self ELSE @],
              BagAddAll(net, out))

LocalRespA(i) ==
  /\ Up(i) /\ app[i].localQ # <<>>
  /\ LET m == Head(app[i].localQ)
         n2 == StepAllK(Cfg(i), node[i], disk[i], <<m>>, 1, RTO(i))
     IN  Emit(i, [MkAct("LocalResp", i) EXCEPT !.msg = m, !.stepped = <<m>>], n2, disk[i],
              [app[i] EXCEPT !.localQ = Tail(@)], net)

\* crash after `stages` durable writes of the queued append (0 = nothing, 1 = entries only)
CrashInAppendA(i, stages) ==
  /\ Up(i) /\ app[i].appendQ # <<>> /\ May("Crash", i)
  /\ LET m == Head(app[i].appendQ) IN
     /\ (m.snap.has => stages = 0)
     /\ Emit(i, [MkAct("CrashInAppend", i) EXCEPT !.msg = m, !.k = stages], DownNode,
             IF stages >= 1 THEN StAppend(disk[i], m.entries) ELSE disk[i],
             [app[i] EXCEPT !.phase = "idle", !.rd = NoReady, !.appendQ = <<>>, !.applyQ = <<>>, !.localQ = <<>>], net)

ApplyThreadA(i) ==
  /\ Up(i) /\ app[i].applyQ # <<>>
  /\ LET m == Head(app[i].applyQ)
         n1 == ApplyEntsK(Cfg(i), node[i], disk[i], m.entries, 1, RTO(i))
         n2 == StepAllK(Cfg(i), n1, disk[i], m.responses, 1, RTO(i))
     IN  Emit(i, [MkAct("ApplyThread", i) EXCEPT !.msg = m, !.ents = m.entries, !.stepped = m.responses], n2, disk[i],
              [AppAfterApply(app[i], n1, m.entries) EXCEPT !.applyQ = Tail(@)], net)

----------------------------------------------------------------------------
(* storage maintenance, crash, restart, joiners                               *)
SnapshotA(i, k) ==
  /\ app[i].created /\ Cnt("Snapshot") < Bound["Snapshot"]
  /\ k > disk[i].snap.index /\ k <= Min2(Min2(app[i].appliedDurable, StLast(disk[i])), disk[i].hs.commit)
  /\ hist.cfold.init /\ k <= hist.cfold.upto
  /\ LET conf == StToCfg(FoldedConf(hist.cfold, k))
     IN  Emit(i, [MkAct("Snapshot", i) EXCEPT !.k = k], node[i], StCreateSnapshot(disk[i], k, conf), app[i], net)

CompactA(i, k) ==
  /\ app[i].created /\ Cnt("Compact") < Bound["Compact"]
  /\ k >= StFirst(disk[i]) /\ k <= disk[i].snap.index
  /\ Up(i) => k <= node[i].applied
  /\ Emit(i, [MkAct("Compact", i) EXCEPT !.k = k], node[i], StCompact(disk[i], k), app[i], net)

CrashA(i) ==
  /\ Up(i) /\ May("Crash", i)
  /\ Emit(i, MkAct("Crash", i), DownNode, disk[i],
          [app[i] EXCEPT !.phase = "idle", !.rd = NoReady, !.appendQ = <<>>, !.applyQ = <<>>, !.localQ = <<>>], net)

\* admissible Config.Applied values (harness: Cluster.RestartRange)
RestartHi(i) ==
  LET lo == disk[i].snap.index
      hi0 == Max2(lo, Min2(app[i].appliedDurable, disk[i].hs.commit))
      ccs == {k \in (lo + 1)..hi0 : DiskHas(disk[i], k) /\ DiskEntry(disk[i], k).type # "N"}
  IN  IF ccs = {} THEN hi0 ELSE (CHOOSE k \in ccs : \A q \in ccs : k <= q) - 1
RestartA(i, a) ==
  /\ app[i].created /\ ~Up(i)
  /\ a >= disk[i].snap.index /\ a <= RestartHi(i)
  /\ LET p2 == [app[i] EXCEPT !.inc = @ + 1]
     IN  /\ node' = [node EXCEPT ![i] = Norm(Cfg(i), NewRawNode(Cfg(i), disk[i], a, RTO(i)), disk[i])]
         /\ app' = [app EXCEPT ![i] = p2]
         /\ act' = [MkAct("Restart", i) EXCEPT !.inc = p2.inc, !.k = a]
         /\ hist' = HistNext(hist, [MkAct("Restart", i) EXCEPT !.inc = p2.inc, !.k = a], i, node[i],
                             Norm(Cfg(i), NewRawNode(Cfg(i), disk[i], a, RTO(i)), disk[i]), disk[i], disk[i])
         /\ UNCHANGED <<cl, disk, net>>

BootA(i) ==
  /\ Cfg(i).exists /\ ~app[i].created
  /\ Emit(i, MkAct("Boot", i), NewRawNode(Cfg(i), EmptyDisk, 0, RTO(i)), EmptyDisk, [IdleApp EXCEPT !.created = TRUE], net)

----------------------------------------------------------------------------
(* Effect(i, a, rto): the node and disk state the specification assigns to    *)
(* node i after the event described by record `a` (same shape as `act`),      *)
(* starting from the CURRENT state.  Used by Conform mode (TraceObs): the      *)
(* real implementation's logged post-state must equal it.                     *)
PersistAppendMsg(d, m) ==
  LET hs == HS(m.term, m.vote, m.commit)
  IN  IF m.snap.has THEN StAppend(PersistSnapHS(d, m.snap, hs), m.entries)
      ELSE PersistSnapHS(StAppend(d, m.entries), NoSnap, hs)

Effect(i, a, rto, postDisk) ==
  LET c == Cfg(i) n == node[i] d == disk[i] p == app[i]
      same == [n |-> n, d |-> d, ret |-> "ok", rd |-> NoReady]
      viaStep(m) == LET r == Step(c, n, d, m, rto) IN [same EXCEPT !.n = r.n, !.ret = IF r.err = "" THEN "ok" ELSE r.err]
  IN
  CASE a.name = "Tick" -> [same EXCEPT !.n = Tick(c, n, d, rto)]
    [] a.name = "Campaign" -> viaStep(Msg("Hup", 0))
    [] a.name = "Propose" -> viaStep([Msg("Prop", 0) EXCEPT !.from = i, !.entries = a.ents])
    [] a.name = "ProposeConfChange" -> viaStep([Msg("Prop", 0) EXCEPT !.entries = a.ents])
    [] a.name = "ProposeBatch" -> viaStep([Msg("Prop", 0) EXCEPT !.from = i, !.entries = a.ents])
    [] a.name = "ReadIndex" -> [viaStep([Msg("ReadIndex", 0) EXCEPT !.entries = a.ents]) EXCEPT !.ret = "ok"]
    [] a.name = "TransferLeader" -> [viaStep([Msg("TransferLeader", 0) EXCEPT !.from = a.to]) EXCEPT !.ret = "ok"]
    [] a.name = "ForgetLeader" -> viaStep(Msg("ForgetLeader", 0))
    [] a.name = "ReportUnreachable" -> [viaStep([Msg("Unreachable", 0) EXCEPT !.from = a.to]) EXCEPT !.ret = "ok"]
    [] a.name = "ReportSnapshot" -> [viaStep([Msg("SnapStatus", 0) EXCEPT !.from = a.to, !.reject = ~a.ok]) EXCEPT !.ret = "ok"]
    [] a.name = "Deliver" ->
         LET r == RawStep(c, n, d, NoMid(a.msg), rto)
         IN  [same EXCEPT !.n = r.n, !.ret = IF r.err = "" THEN "ok" ELSE r.err]
    [] a.name = "Ready" -> LET r == ReadyOf(c, n, d) IN [same EXCEPT !.n = r.n, !.rd = r.rd]
    [] a.name = "PersistEntries" -> [same EXCEPT !.d = StAppend(d, p.rd.ents)]
    [] a.name = "PersistHardState" -> [same EXCEPT !.d = PersistSnapHS(d, NoSnap, p.rd.hs)]
    [] a.name = "PersistSnapshot" -> [same EXCEPT !.d = StAppend(PersistSnapHS(d, p.rd.snap, p.rd.hs), p.rd.ents)]
    [] a.name = "Send" -> same
    [] a.name = "Apply" -> [same EXCEPT !.n = ApplyEntsK(c, n, d, p.rd.committed, 1, rto)]
    [] a.name = "Advance" -> [same EXCEPT !.n = Advance(c, n, d, rto)]
    [] a.name = "AppendThread" ->
         LET m == Head(p.appendQ)
             d2 == PersistAppendMsg(d, m)
             self == SelectSeq(m.responses, LAMBDA r : r.to = i)
         IN  [same EXCEPT !.n = IF a.keep THEN n ELSE StepAllK(c, n, d2, self, 1, rto), !.d = d2]
    [] a.name = "LocalResp" -> [same EXCEPT !.n = StepAllK(c, n, d, <<Head(p.localQ)>>, 1, rto)]
    [] a.name = "CrashInAppend" ->
         [same EXCEPT !.n = DownNode, !.d = IF a.k >= 1 THEN StAppend(d, Head(p.appendQ).entries) ELSE d]
    [] a.name = "ApplyThread" ->
         LET m == Head(p.applyQ)
         IN  [same EXCEPT !.n = StepAllK(c, ApplyEntsK(c, n, d, m.entries, 1, rto), d, m.responses, 1, rto)]
    [] a.name = "Snapshot" -> [same EXCEPT !.d = StCreateSnapshot(d, a.k, a.conf)]
    [] a.name = "Compact" -> [same EXCEPT !.d = StCompact(d, a.k)]
    [] a.name = "Crash" -> [same EXCEPT !.n = DownNode, !.d = postDisk]      \* unsynced writes may be lost
    [] a.name = "Restart" -> [same EXCEPT !.n = NewRawNode(c, d, a.k, rto)]
    [] a.name = "Boot" -> [same EXCEPT !.n = NewRawNode(c, postDisk, 0, rto), !.d = postDisk]
    [] OTHER -> same

----------------------------------------------------------------------------
\* Bound["Atomic"] = 1: a node's Ready handling (Ready .. Advance) is not interleaved with anything else.
\* Without crashes this loses no behaviour that matters (messages leave at Send either way) and removes the
\* product of the sub-step interleavings of different nodes; every sub-step is still a state of its own, so
\* every formula is still evaluated on it.
Busy == {j \in Node : app[j].phase # "idle"}
Quiet == Bound["Atomic"] = 0 \/ Busy = {}
Mine(i) == Bound["Atomic"] = 0 \/ Busy \subseteq {i}

Next ==
  \/ /\ Quiet
     /\ \/ \E i \in Node : TickA(i) \/ CampaignA(i) \/ ReadIndexA(i) \/ ForgetLeaderA(i) \/ BootA(i)
        \/ \E i \in Node, psz \in PszSet : ProposeA(i, psz)
        \/ \E i \in Node, cc \in CCSet : ProposeConfChangeA(i, cc)
        \/ \E i, j \in Node : TransferLeaderA(i, j) \/ ReportUnreachableA(i, j)
        \/ \E i, j \in Node, ok \in BOOLEAN : ReportSnapshotA(i, j, ok)
        \/ \E m \in DOMAIN net : DeliverA(m, FALSE) \/ DeliverA(m, TRUE) \/ DropA(m)
        \/ \E i \in Node : AppendThreadA(i, FALSE) \/ AppendThreadA(i, TRUE) \/ LocalRespA(i) \/ ApplyThreadA(i) \/ CrashA(i)
        \/ \E i \in Node, st \in {0, 1} : CrashInAppendA(i, st)
        \/ \E i \in Node, k \in 1..Bound["Index"] : SnapshotA(i, k) \/ CompactA(i, k) \/ RestartA(i, k)
  \/ \E i \in Node : /\ Mine(i)
                      /\ (ReadyA(i) \/ PersistEntriesA(i) \/ PersistHardStateA(i) \/ PersistSnapshotA(i)
                          \/ SendA(i) \/ ApplyA(i) \/ AdvanceA(i))

Spec == Init /\ [][Next]_vars

\* bounds of the explored fragment
StateBound ==
  /\ \A i \in Node : node[i].term <= Bound["Term"] /\ (Up(i) => LastIndex(node[i], disk[i]) <= Bound["Index"])
  /\ \A m \in DOMAIN net : net[m] <= 2
  /\ Cardinality(DOMAIN net) <= Bound["Net"]

\* output-only variables are not part of a state's identity
\* (of the action counters only the budgeted ones matter: how many deliveries or Ready steps led to a
\* state does not distinguish it)
BudgetedCnt == [k \in DOMAIN hist.cnt \cap DOMAIN Bound |-> hist.cnt[k]]
View == <<node, disk, app, net,
          [hist EXCEPT !.dlPrev = 0, !.hsExpPrev = 0, !.heard = 0, !.leadAge = 0, !.sinceLead = 0, !.cnt = BudgetedCnt]>>
=============================================================================
