SPECIFICATION Spec
CONSTANTS
  Node = {1, 2}
  Weaken = {}
  MCCl <- ClXfer
  PszSet <- PszF
  CCSet <- NoCCsF
  Actors <- ActorsXfer
  Bound <- BoundXfer
INVARIANT Probe_xfer
CONSTRAINT StateBound
VIEW View
CHECK_DEADLOCK FALSE
