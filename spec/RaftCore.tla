------------------------------ MODULE RaftCore ------------------------------
(* Functional core of the etcd-io/raft specification: one pure operator per   *)
(* Go function of raft.go / rawnode.go / log.go / log_unstable.go /           *)
(* tracker/*.go (see DESIGN.md Appendix B for the mapping).                   *)
(*                                                                             *)
(* Conventions: c = static per-node Config record, n = volatile node record   *)
(* (the `raft` + `RawNode` structs; same shape as the JSON the harness logs), *)
(* d = disk record (MemoryStorage), m = message record.  Operators return the  *)
(* new node record, or a record [n, ...] when they also return a value.        *)
(* "rto" is the value the election-timeout draw yields if the step resets it.  *)
EXTENDS Integers, Sequences, FiniteSets, TLC, Quorum, ConfChange

None == 0
NoLimit == 1073741824
AppendThread == 1001      \* stands for raft.LocalAppendThread
ApplyThread  == 1002      \* stands for raft.LocalApplyThread

Min2(a, b) == IF a < b THEN a ELSE b
Max2(a, b) == IF a > b THEN a ELSE b

----------------------------------------------------------------------------
(* Guard switches (DESIGN.md 3.6): every safety mechanism named in the        *)
(* property anchors is wrapped, so a spec mutant can switch it off.           *)
CONSTANT Weaken
\* Guard: a permission ("may do it only if cond"); weakened = always permitted.
\* Block: a refusal ("does not do it while cond"); weakened = never refused.
Guard(name, cond) == IF name \in Weaken THEN TRUE ELSE cond
Weak(name) == name \in Weaken
Block(name, cond) == name \notin Weaken /\ cond

----------------------------------------------------------------------------
(* Generic sequence helpers                                                   *)
SeqSet(s) == {s[k] : k \in DOMAIN s}
Take(s, k) == SubSeq(s, 1, Min2(k, Len(s)))
Drop(s, k) == SubSeq(s, k + 1, Len(s))
Last(s) == s[Len(s)]
RECURSIVE SumBy(_, _)
SumBy(s, f) == IF s = <<>> THEN 0 ELSE s[1][f] + SumBy(Tail(s), f)
RECURSIVE SortedSeq(_)
SortedSeq(S) == IF S = {} THEN <<>>
                ELSE LET m == CHOOSE x \in S : \A y \in S : x <= y IN <<m>> \o SortedSeq(S \ {m})

----------------------------------------------------------------------------
(* Records                                                                    *)
EmptyConf == [voters |-> <<>>, outgoing |-> <<>>, learners |-> <<>>, learnersNext |-> <<>>, autoLeave |-> FALSE]
NoSnap == [has |-> FALSE, index |-> 0, term |-> 0, conf |-> EmptyConf]
NoCC == [trans |-> "", changes |-> <<>>]
BaseMsg == [mid |-> 0, type |-> "", from |-> 0, to |-> 0, term |-> 0, logTerm |-> 0, index |-> 0,
            commit |-> 0, vote |-> 0, reject |-> FALSE, hint |-> 0, ctxKind |-> "", ctxVal |-> 0,
            entries |-> <<>>, snap |-> NoSnap, responses |-> <<>>]
HS(t, v, cm) == [has |-> (t # 0 \/ v # 0 \/ cm # 0), term |-> t, vote |-> v, commit |-> cm]
NoHS == HS(0, 0, 0)
NoSS == [has |-> FALSE, lead |-> 0, role |-> "F"]
NoReady == [has |-> FALSE, ss |-> NoSS, hs |-> NoHS, ents |-> <<>>, snap |-> NoSnap, committed |-> <<>>,
            msgs |-> <<>>, readStates |-> <<>>, mustSync |-> FALSE]

DownNode ==
  [up |-> FALSE, term |-> 0, vote |-> 0, role |-> "F", lead |-> 0, isLearner |-> FALSE,
   commit |-> 0, applying |-> 0, applied |-> 0, applyingSz |-> 0, applyPaused |-> FALSE,
   uoff |-> 0, uoffip |-> 0, uents |-> <<>>, usnap |-> NoSnap, usnapip |-> FALSE,
   first |-> 0, last |-> 0, lastTerm |-> 0,
   cfg |-> EmptyConf, prs |-> <<>>, votes |-> <<>>, msgs |-> <<>>, after |-> <<>>, soa |-> <<>>,
   transferee |-> 0, pendingConf |-> 0, uncommittedSz |-> 0,
   roAcks |-> <<>>, roUnc |-> <<>>, roConf |-> 0, pendingReads |-> <<>>, readStates |-> <<>>,
   ee |-> 0, he |-> 0, rto |-> 0, prevHS |-> NoHS, prevSS |-> NoSS]

\* effective limits after Config.validate()
MaxMsgSize(c)      == c.maxSizePerMsg
MaxApplying(c)     == IF c.maxCommittedSize = 0 THEN Max2(c.maxSizePerMsg, 1) ELSE c.maxCommittedSize
MaxUncommitted(c)  == IF c.maxUncommittedSize = 0 THEN NoLimit ELSE c.maxUncommittedSize
MaxInflBytes(c)    == IF c.maxInflightBytes = 0 THEN NoLimit ELSE c.maxInflightBytes

\* config conversions (JSON-shaped sorted sequences <-> sets)
VotersIn(cfg)  == SeqSet(cfg.voters)
VotersOut(cfg) == SeqSet(cfg.outgoing)
AllVoters(cfg) == VotersIn(cfg) \cup VotersOut(cfg)
Members(cfg)   == AllVoters(cfg) \cup SeqSet(cfg.learners) \cup SeqSet(cfg.learnersNext)
IsJointCfg(cfg) == Len(cfg.outgoing) > 0

----------------------------------------------------------------------------
(* MemoryStorage (storage.go)                                                 *)
StLast(d)  == d.cidx + Len(d.ents)
StFirst(d) == d.cidx + 1
\* -1 = ErrCompacted, -2 = ErrUnavailable
StTerm(d, i) == IF i < d.cidx THEN -1
                ELSE IF i - d.cidx > Len(d.ents) THEN -2
                ELSE IF i = d.cidx THEN d.cterm ELSE d.ents[i - d.cidx].term

RECURSIVE LimitPrefix(_, _, _, _)
\* util.go limitSize: the longest prefix whose total size is <= max, at least one entry
LimitPrefix(ents, max, k, acc) ==
  IF k > Len(ents) THEN Len(ents)
  ELSE IF acc + ents[k].sz > max THEN k - 1
  ELSE LimitPrefix(ents, max, k + 1, acc + ents[k].sz)
LimitSize(ents, max) ==
  IF ents = <<>> THEN ents ELSE Take(ents, LimitPrefix(ents, max, 2, ents[1].sz))

\* Entries(lo, hi, maxSize) for d.cidx < lo <= hi <= last+1
StEntries(d, lo, hi, max) == LimitSize(SubSeq(d.ents, lo - d.cidx, hi - 1 - d.cidx), max)

\* Append (truncate + append, entries below the first index are dropped)
StAppend(d, ents) ==
  IF ents = <<>> THEN d
  ELSE LET first == StFirst(d)
           lastNew == ents[1].index + Len(ents) - 1
       IN  IF lastNew < first THEN d
           ELSE LET es == IF first > ents[1].index THEN Drop(ents, first - ents[1].index) ELSE ents
                    off == es[1].index - d.cidx        \* position in the Go slice incl. dummy
                IN  [d EXCEPT !.ents = Take(d.ents, off - 1) \o es]

StApplySnapshot(d, s) ==
  IF d.snap.index # 0 /\ d.snap.index >= s.index THEN d   \* ErrSnapOutOfDate
  ELSE [d EXCEPT !.snap = [s EXCEPT !.has = (s.index # 0)], !.cidx = s.index, !.cterm = s.term, !.ents = <<>>]

StCreateSnapshot(d, k, conf) ==
  [d EXCEPT !.snap = [has |-> TRUE, index |-> k, term |-> StTerm(d, k), conf |-> conf]]

StCompact(d, k) ==
  [d EXCEPT !.cidx = k, !.cterm = StTerm(d, k), !.ents = Drop(d.ents, k - d.cidx)]

----------------------------------------------------------------------------
(* unstable (log_unstable.go) and raftLog (log.go)                            *)
ULen(n) == Len(n.uents)
FirstIndex(n, d) == IF n.usnap.has THEN n.usnap.index + 1 ELSE StFirst(d)
LastIndex(n, d) == IF ULen(n) > 0 THEN n.uoff + ULen(n) - 1
                   ELSE IF n.usnap.has THEN n.usnap.index ELSE StLast(d)

\* unstable.maybeTerm: -3 = not found in unstable
UMaybeTerm(n, i) ==
  IF i < n.uoff THEN (IF n.usnap.has /\ n.usnap.index = i THEN n.usnap.term ELSE -3)
  ELSE IF ULen(n) = 0 /\ ~n.usnap.has THEN -3
  ELSE IF i > (IF ULen(n) > 0 THEN n.uoff + ULen(n) - 1 ELSE n.usnap.index) THEN -3
  ELSE n.uents[i - n.uoff + 1].term

\* raftLog.term: >= 0 ok; -1 ErrCompacted; -2 ErrUnavailable
LogTerm(n, d, i) ==
  LET ut == UMaybeTerm(n, i)
  IN  IF ut # -3 THEN ut
      ELSE IF i + 1 < FirstIndex(n, d) THEN -1
      ELSE IF i > LastIndex(n, d) THEN -2
      ELSE StTerm(d, i)

ZeroTerm(t) == IF t < 0 THEN 0 ELSE t
LastTerm(n, d) == ZeroTerm(LogTerm(n, d, LastIndex(n, d)))
MatchTerm(n, d, i, t) == LET lt == LogTerm(n, d, i) IN lt >= 0 /\ lt = t
IsUpToDate(n, d, i, t) == LET lt == LastTerm(n, d) li == LastIndex(n, d)
                          IN t > lt \/ (t = lt /\ i >= li)

\* the entry the raftLog view holds at index i (FirstIndex <= i <= LastIndex)
\* (total: an index the recorded state does not actually hold, which only a broken implementation
\* can report, yields an entry that equals no real one instead of an evaluation error)
NoSuchEntry == [term |-> 0, index |-> 0, type |-> "missing", pid |-> 0, rid |-> 0, cc |-> NoCC, sz |-> 0, psz |-> 0]
EntryAt(n, d, i) == IF i >= n.uoff
                    THEN (IF i - n.uoff + 1 \in DOMAIN n.uents THEN n.uents[i - n.uoff + 1] ELSE NoSuchEntry)
                    ELSE (IF i - d.cidx \in DOMAIN d.ents THEN d.ents[i - d.cidx] ELSE NoSuchEntry)
\* all entries of the logical log, FirstIndex..LastIndex
LogEntries(n, d) == [k \in 1..(LastIndex(n, d) - FirstIndex(n, d) + 1) |-> EntryAt(n, d, FirstIndex(n, d) + k - 1)]

USlice(n, lo, hi) == SubSeq(n.uents, lo - n.uoff + 1, hi - 1 - n.uoff + 1)

\* raftLog.slice(lo, hi, maxSize): [err, ents]; err "compacted" possible, the
\* out-of-bounds cases are internal assertions (C14) -> err "panic"
LogSlice(n, d, lo, hi, max) ==
  IF lo > hi THEN [err |-> "panic", ents |-> <<>>]
  ELSE IF lo < FirstIndex(n, d) THEN [err |-> "compacted", ents |-> <<>>]
  ELSE IF hi > LastIndex(n, d) + 1 THEN [err |-> "panic", ents |-> <<>>]
  ELSE IF lo = hi THEN [err |-> "", ents |-> <<>>]
  ELSE IF lo >= n.uoff THEN [err |-> "", ents |-> LimitSize(USlice(n, lo, hi), max)]
  ELSE LET cut == Min2(hi, n.uoff) IN
       IF lo <= d.cidx THEN [err |-> "compacted", ents |-> <<>>]
       ELSE IF cut > StLast(d) + 1 \/ Len(d.ents) = 0 THEN [err |-> "panic", ents |-> <<>>]
       ELSE LET ents == StEntries(d, lo, cut, max)
                size == SumBy(ents, "sz") IN
            IF hi <= n.uoff THEN [err |-> "", ents |-> ents]
            ELSE IF Len(ents) < cut - lo THEN [err |-> "", ents |-> ents]
            ELSE IF size >= max THEN [err |-> "", ents |-> ents]
            ELSE LET us == LimitSize(USlice(n, n.uoff, hi), max - size) IN
                 IF Len(us) = 1 /\ size + SumBy(us, "sz") > max THEN [err |-> "", ents |-> ents]
                 ELSE [err |-> "", ents |-> ents \o us]

\* raftLog.entries(i, maxSize)
LogEntriesFrom(n, d, i, max) ==
  IF i > LastIndex(n, d) THEN [err |-> "", ents |-> <<>>]
  ELSE LogSlice(n, d, i, LastIndex(n, d) + 1, max)

\* findConflictByTerm(index, term) -> <<index, term>>
RECURSIVE FindConflictByTerm(_, _, _, _)
FindConflictByTerm(n, d, index, term) ==
  IF index <= 0 THEN <<0, 0>>
  ELSE LET t == LogTerm(n, d, index)
       IN  IF t < 0 THEN <<index, 0>>
           ELSE IF t <= term THEN <<index, t>>
           ELSE FindConflictByTerm(n, d, index - 1, term)

\* findConflict(ents): first index whose term does not match (0 if none)
RECURSIVE FindConflict(_, _, _, _)
FindConflict(n, d, ents, k) ==
  IF k > Len(ents) THEN 0
  ELSE IF ~MatchTerm(n, d, ents[k].index, ents[k].term) THEN ents[k].index
  ELSE FindConflict(n, d, ents, k + 1)

\* unstable.truncateAndAppend
TruncateAndAppend(n, ents) ==
  LET from == ents[1].index IN
  IF from = n.uoff + ULen(n) THEN [n EXCEPT !.uents = @ \o ents]
  ELSE IF from <= n.uoff THEN [n EXCEPT !.uents = ents, !.uoff = from, !.uoffip = from]
  ELSE [n EXCEPT !.uents = Take(n.uents, from - n.uoff) \o ents, !.uoffip = Min2(@, from)]

\* raftLog.append (assertion: never below commit)
LogAppend(n, ents) == IF ents = <<>> THEN n ELSE TruncateAndAppend(n, ents)

\* raftLog.commitTo
CommitTo(n, k) == IF Guard("commit_monotone", n.commit < k) THEN [n EXCEPT !.commit = k] ELSE n

\* raftLog.maybeAppend -> [n, ok, lastnew]
LogMaybeAppend(n, d, prevIndex, prevTerm, ents, committed) ==
  IF ~Guard("append_prev_match", MatchTerm(n, d, prevIndex, prevTerm))
  THEN [n |-> n, ok |-> FALSE, lastnew |-> 0]
  ELSE LET lastnew == prevIndex + Len(ents)
           ci == IF Weak("conflict_from_first_mismatch")
                 THEN (IF ents = <<>> THEN 0 ELSE ents[1].index)
                 ELSE FindConflict(n, d, ents, 1)
           n1 == IF ci = 0 THEN n ELSE LogAppend(n, Drop(ents, ci - (prevIndex + 1)))
           n2 == CommitTo(n1, IF Weak("follower_commit_clamp") THEN committed ELSE Min2(committed, lastnew))
       IN  [n |-> n2, ok |-> TRUE, lastnew |-> lastnew]

\* unstable.stableTo
StableTo(n, index, term) ==
  LET gt == UMaybeTerm(n, index) IN
  IF gt = -3 THEN n
  ELSE IF index < n.uoff THEN n
  ELSE IF ~Guard("stable_to_term_match", gt = term) THEN n
  ELSE [n EXCEPT !.uents = Drop(@, index + 1 - n.uoff), !.uoff = index + 1,
                 !.uoffip = Max2(@, index + 1)]

StableSnapTo(n, i) == IF n.usnap.has /\ n.usnap.index = i THEN [n EXCEPT !.usnap = NoSnap, !.usnapip = FALSE] ELSE n

\* raftLog.appliedTo
LogAppliedTo(c, n, i, size) ==
  LET sz == IF n.applyingSz > size THEN n.applyingSz - size ELSE 0
  IN  [n EXCEPT !.applied = i, !.applying = Max2(@, i), !.applyingSz = sz,
                !.applyPaused = (sz >= MaxApplying(c))]

MaxAppliable(n, allowUnstable) ==
  IF allowUnstable \/ Weak("apply_stable_only_async") THEN n.commit ELSE Min2(n.commit, n.uoff - 1)

\* raftLog.nextCommittedEnts
NextCommittedEnts(c, n, d, allowUnstable) ==
  IF n.applyPaused THEN <<>>
  ELSE IF Block("snapshot_blocks_apply", n.usnap.has) THEN <<>>
  ELSE LET lo == n.applying + 1
           hi == MaxAppliable(n, allowUnstable) + 1
       IN  IF lo >= hi THEN <<>>
           ELSE LogSlice(n, d, lo, hi, MaxApplying(c) - n.applyingSz).ents

AcceptApplying(c, n, i, size, allowUnstable) ==
  [n EXCEPT !.applying = i, !.applyingSz = @ + size,
            !.applyPaused = (n.applyingSz + size >= MaxApplying(c)) \/ i < MaxAppliable(n, allowUnstable)]

AcceptUnstable(n) ==
  [n EXCEPT !.uoffip = IF ULen(n) > 0 THEN Last(n.uents).index + 1 ELSE @,
            !.usnapip = IF n.usnap.has THEN TRUE ELSE @]

\* raftLog.restore + unstable.restore
LogRestore(n, s) ==
  [n EXCEPT !.commit = s.index, !.uoff = s.index + 1, !.uoffip = s.index + 1, !.uents = <<>>,
            !.usnap = [s EXCEPT !.has = TRUE], !.usnapip = FALSE]

\* keep the derived fields the harness logs
Norm(c, n, d) ==
  IF ~n.up THEN n
  ELSE [n EXCEPT !.first = FirstIndex(n, d), !.last = LastIndex(n, d), !.lastTerm = LastTerm(n, d),
                 !.prs = [k \in DOMAIN n.prs |-> [n.prs[k] EXCEPT !.inflFull =
                             (Len(n.prs[k].inflights) = c.maxInflightMsgs
                              \/ SumBy(n.prs[k].inflights, "bytes") >= (IF c.maxInflightBytes = 0 THEN NoLimit ELSE c.maxInflightBytes))]]]

----------------------------------------------------------------------------
(* tracker: Progress, Inflights, ProgressTracker                              *)
PrIdx(n, id) == IF \E k \in DOMAIN n.prs : n.prs[k].id = id
                THEN CHOOSE k \in DOMAIN n.prs : n.prs[k].id = id ELSE 0
HasPr(n, id) == PrIdx(n, id) # 0
GetPr(n, id) == n.prs[PrIdx(n, id)]
SetPr(n, id, pr) == [n EXCEPT !.prs[PrIdx(n, id)] = pr]

InfFull(c, infl) == Len(infl) = c.maxInflightMsgs \/ SumBy(infl, "bytes") >= MaxInflBytes(c)
FixFull(c, pr) == [pr EXCEPT !.inflFull = InfFull(c, pr.inflights)]
RECURSIVE FreeLEk(_, _)
FreeLEk(infl, to) == IF infl = <<>> \/ to < infl[1].index THEN infl ELSE FreeLEk(Tail(infl), to)

NewPr(id, match, next, isLearner, active) ==
  [id |-> id, match |-> match, next |-> next, state |-> "Probe", pendingSnap |-> 0, recentActive |-> active,
   paused |-> FALSE, isLearner |-> isLearner, sentCommit |-> 0, inflights |-> <<>>, inflFull |-> FALSE]

PrResetState(pr, st) == [pr EXCEPT !.paused = FALSE, !.pendingSnap = 0, !.state = st, !.inflights = <<>>]
PrBecomeProbe(pr) ==
  LET p1 == IF pr.state = "Snapshot"
            THEN [PrResetState(pr, "Probe") EXCEPT !.next = Max2(pr.match + 1, pr.pendingSnap + 1)]
            ELSE [PrResetState(pr, "Probe") EXCEPT !.next = pr.match + 1]
  IN  [p1 EXCEPT !.sentCommit = Min2(@, p1.next - 1)]
PrBecomeReplicate(pr) == [PrResetState(pr, "Replicate") EXCEPT !.next = pr.match + 1]
PrBecomeSnapshot(pr, si) == [PrResetState(pr, "Snapshot") EXCEPT !.pendingSnap = si, !.next = si + 1, !.sentCommit = si]
PrSentEntries(c, pr, cnt, bytes) ==
  IF pr.state = "Replicate"
  THEN LET p1 == IF cnt > 0 THEN [pr EXCEPT !.next = @ + cnt,
                                            !.inflights = Append(@, [index |-> pr.next + cnt - 1, bytes |-> bytes])]
                 ELSE pr
       IN  [p1 EXCEPT !.paused = InfFull(c, p1.inflights)]
  ELSE IF cnt > 0 THEN [pr EXCEPT !.paused = TRUE] ELSE pr          \* Probe (Snapshot: assertion)
PrCanBumpCommit(pr, index) == index > pr.sentCommit /\ pr.sentCommit < pr.next - 1
PrMaybeUpdate(pr, k) == IF k <= pr.match THEN [pr |-> pr, ok |-> FALSE]
                        ELSE [pr |-> [pr EXCEPT !.match = k, !.next = Max2(@, k + 1), !.paused = FALSE], ok |-> TRUE]
PrMaybeDecrTo(pr, rejected, hint) ==
  IF pr.state = "Replicate"
  THEN IF rejected <= pr.match THEN [pr |-> pr, ok |-> FALSE]
       ELSE [pr |-> [pr EXCEPT !.next = pr.match + 1, !.sentCommit = Min2(@, pr.match)], ok |-> TRUE]
  ELSE IF pr.next - 1 # rejected THEN [pr |-> pr, ok |-> FALSE]
  ELSE LET nx == Max2(Min2(rejected, hint + 1), pr.match + 1)
       IN  [pr |-> [pr EXCEPT !.next = nx, !.sentCommit = Min2(@, nx - 1), !.paused = FALSE], ok |-> TRUE]
PrIsPaused(pr) == IF pr.state = "Snapshot" THEN TRUE ELSE pr.paused

MatchMap(n) == [id \in {n.prs[k].id : k \in DOMAIN n.prs} |-> GetPr(n, id).match]
TrkCommitted(n) == JointCommitted(VotersIn(n.cfg), VotersOut(n.cfg), MatchMap(n))
ActiveMap(n) == [id \in {n.prs[k].id : k \in {kk \in DOMAIN n.prs : ~n.prs[kk].isLearner}} |-> GetPr(n, id).recentActive]
QuorumActive(n) == JointVote(VotersIn(n.cfg), VotersOut(n.cfg), ActiveMap(n)) = "Won"
VotesMap(n) == [id \in {n.votes[k].id : k \in DOMAIN n.votes} |->
                  LET kk == CHOOSE k \in DOMAIN n.votes : n.votes[k].id = id IN n.votes[kk].v]
TallyVotes(n) == JointVote(VotersIn(n.cfg), VotersOut(n.cfg), VotesMap(n))
IsSingleton(n) == Len(n.cfg.voters) = 1 /\ Len(n.cfg.outgoing) = 0

\* RecordVote: the first recorded answer of a voter wins; votes kept sorted by id
InsertSorted(s, r) == LET lo == SelectSeq(s, LAMBDA x : x.id < r.id) hi == SelectSeq(s, LAMBDA x : x.id > r.id)
                      IN lo \o <<r>> \o hi
RecordVote(n, id, v) ==
  IF Block("first_vote_wins", \E k \in DOMAIN n.votes : n.votes[k].id = id)
  THEN n ELSE [n EXCEPT !.votes = InsertSorted(@, [id |-> id, v |-> v])]

----------------------------------------------------------------------------
(* raft.send                                                                  *)
IsVoteType(t) == t \in {"Vote", "VoteResp", "PreVote", "PreVoteResp"}
AfterAppendType(t) == t \in {"AppResp", "VoteResp", "PreVoteResp"}

\* panic conditions of send (C14): vote-type message without a term,
\* self-addressed message outside msgsAfterAppend
SendPanics(c, n, m) == (IsVoteType(m.type) /\ m.term = 0) \/ (~AfterAppendType(m.type) /\ m.to = c.id)

Send(c, n, m0) ==
  LET m1 == IF m0.from = None THEN [m0 EXCEPT !.from = c.id] ELSE m0
      m  == IF IsVoteType(m1.type) \/ m1.type \in {"Prop", "ReadIndex"} THEN m1 ELSE [m1 EXCEPT !.term = n.term]
  IN  IF Block("resp_after_append", AfterAppendType(m.type))
      THEN [n EXCEPT !.after = Append(@, m)]
      ELSE [n EXCEPT !.msgs = Append(@, m)]

Msg(type, to) == [BaseMsg EXCEPT !.type = type, !.to = to]

----------------------------------------------------------------------------
(* sending appends, snapshots, heartbeats                                     *)
PayloadBytes(ents) == SumBy(ents, "psz")

MaybeSendSnapshot(c, n, d, to) ==
  LET pr == GetPr(n, to) IN
  IF ~pr.recentActive THEN [n |-> n, sent |-> FALSE]
  ELSE LET s == IF n.usnap.has THEN n.usnap ELSE d.snap
           n1 == SetPr(n, to, PrBecomeSnapshot(pr, s.index))
       IN  [n |-> Send(c, n1, [Msg("Snap", to) EXCEPT !.snap = [s EXCEPT !.has = TRUE]]), sent |-> TRUE]

MaybeSendAppend(c, n, d, to, sendIfEmpty) ==
  LET pr == GetPr(n, to) IN
  IF Block("snapshot_pauses_append", PrIsPaused(pr)) THEN [n |-> n, sent |-> FALSE]
  ELSE LET prevIndex == pr.next - 1
           prevTerm == LogTerm(n, d, prevIndex)
       IN  IF prevTerm < 0 THEN MaybeSendSnapshot(c, n, d, to)
           ELSE LET r == IF pr.state # "Replicate" \/ ~Block("inflights_full", InfFull(c, pr.inflights))
                         THEN LogEntriesFrom(n, d, pr.next, IF Weak("max_size_per_msg") THEN NoLimit ELSE MaxMsgSize(c))
                         ELSE [err |-> "", ents |-> <<>>]
                    ents == r.ents
                IN  IF Len(ents) = 0 /\ ~sendIfEmpty THEN [n |-> n, sent |-> FALSE]
                    ELSE IF r.err # "" THEN MaybeSendSnapshot(c, n, d, to)
                    ELSE LET m == [Msg("App", to) EXCEPT !.index = prevIndex, !.logTerm = prevTerm,
                                                         !.entries = ents, !.commit = n.commit]
                             n1 == Send(c, n, m)
                             pr1 == PrSentEntries(c, pr, Len(ents), PayloadBytes(ents))
                             pr2 == [pr1 EXCEPT !.sentCommit = n.commit]
                         IN  [n |-> SetPr(n1, to, pr2), sent |-> TRUE]

SendAppend(c, n, d, to) == MaybeSendAppend(c, n, d, to, TRUE).n

RECURSIVE SendAppendsWhilePossible(_, _, _, _, _)
SendAppendsWhilePossible(c, n, d, to, fuel) ==
  IF fuel = 0 THEN n
  ELSE LET r == MaybeSendAppend(c, n, d, to, FALSE)
       IN  IF r.sent THEN SendAppendsWhilePossible(c, r.n, d, to, fuel - 1) ELSE r.n

HeartbeatCtx(n) == IF n.roUnc = <<>> THEN [kind |-> "", val |-> 0]
                   ELSE [kind |-> "pos", val |-> n.roConf + Len(n.roUnc)]

SendHeartbeat(c, n, to, ctx) ==
  LET pr == GetPr(n, to)
      commit == IF Weak("heartbeat_commit_clamp") THEN n.commit ELSE Min2(pr.match, n.commit)
      n1 == Send(c, n, [Msg("Heartbeat", to) EXCEPT !.commit = commit, !.ctxKind = ctx.kind, !.ctxVal = ctx.val])
  IN  SetPr(n1, to, [pr EXCEPT !.sentCommit = commit])

PeerIds(n) == [k \in DOMAIN n.prs |-> n.prs[k].id]     \* sorted, as ProgressTracker.Visit

RECURSIVE BcastAppendK(_, _, _, _, _)
BcastAppendK(c, n, d, ids, k) ==
  IF k > Len(ids) THEN n
  ELSE IF ids[k] = c.id \/ ~HasPr(n, ids[k]) THEN BcastAppendK(c, n, d, ids, k + 1)
  ELSE BcastAppendK(c, SendAppend(c, n, d, ids[k]), d, ids, k + 1)
BcastAppend(c, n, d) == BcastAppendK(c, n, d, PeerIds(n), 1)

RECURSIVE BcastMaybeAppendK(_, _, _, _, _)
BcastMaybeAppendK(c, n, d, ids, k) ==
  IF k > Len(ids) THEN n
  ELSE IF ids[k] = c.id THEN BcastMaybeAppendK(c, n, d, ids, k + 1)
  ELSE BcastMaybeAppendK(c, MaybeSendAppend(c, n, d, ids[k], FALSE).n, d, ids, k + 1)

RECURSIVE BcastHeartbeatK(_, _, _, _, _)
BcastHeartbeatK(c, n, ctx, ids, k) ==
  IF k > Len(ids) THEN n
  ELSE IF ids[k] = c.id THEN BcastHeartbeatK(c, n, ctx, ids, k + 1)
  ELSE BcastHeartbeatK(c, SendHeartbeat(c, n, ids[k], ctx), ctx, ids, k + 1)
BcastHeartbeat(c, n) == BcastHeartbeatK(c, n, HeartbeatCtx(n), PeerIds(n), 1)

----------------------------------------------------------------------------
(* commit                                                                     *)
MaybeCommit(c, n, d) ==
  LET idx == IF Weak("commit_quorum_joint")
             THEN MajorityCommitted(VotersIn(n.cfg), MatchMap(n))
             ELSE TrkCommitted(n)
  IN  IF n.term # 0 /\ idx > n.commit /\ idx < NoLimit
         /\ (IF Weak("commit_current_term") THEN LogTerm(n, d, idx) >= 0 ELSE MatchTerm(n, d, idx, n.term))
      THEN [n |-> CommitTo(n, idx), ok |-> TRUE]
      ELSE [n |-> n, ok |-> FALSE]

----------------------------------------------------------------------------
(* reset / role changes                                                       *)
Reset(c, n, d, term, rto) ==
  LET last == LastIndex(n, d)
      n1 == IF n.term # term THEN [n EXCEPT !.term = term, !.vote = None]
            ELSE IF Weak("vote_reset_only_on_new_term") THEN [n EXCEPT !.vote = None] ELSE n
      prs1 == IF Weak("progress_reset_on_election") THEN n.prs
              ELSE [k \in DOMAIN n.prs |->
                      NewPr(n.prs[k].id, IF n.prs[k].id = c.id THEN last ELSE 0, last + 1, n.prs[k].isLearner, FALSE)]
  IN  [n1 EXCEPT !.lead = None, !.ee = 0, !.he = 0, !.rto = rto, !.transferee = None, !.votes = <<>>,
                 !.prs = prs1, !.pendingConf = 0, !.uncommittedSz = 0,
                 !.roAcks = IF Weak("ro_reset_on_term_change") THEN @ ELSE <<>>,
                 !.roUnc = IF Weak("ro_reset_on_term_change") THEN @ ELSE <<>>,
                 !.roConf = IF Weak("ro_reset_on_term_change") THEN @ ELSE 0]

BecomeFollower(c, n, d, term, lead, rto) ==
  [Reset(c, n, d, term, rto) EXCEPT !.lead = lead, !.role = "F"]

BecomeCandidate(c, n, d, rto) ==
  [Reset(c, n, d, n.term + 1, rto) EXCEPT !.vote = c.id, !.role = "C"]

BecomePreCandidate(c, n) == [n EXCEPT !.votes = <<>>, !.lead = None, !.role = "PC"]

\* increaseUncommittedSize
IncreaseUncommitted(c, n, ents) ==
  LET s == PayloadBytes(ents) IN
  IF Block("uncommitted_size_limit", n.uncommittedSz > 0 /\ s > 0 /\ n.uncommittedSz + s > MaxUncommitted(c))
  THEN [n |-> n, ok |-> FALSE]
  ELSE [n |-> [n EXCEPT !.uncommittedSz = @ + s], ok |-> TRUE]
ReduceUncommitted(n, s) == [n EXCEPT !.uncommittedSz = IF s > @ THEN 0 ELSE @ - s]

\* proposals arrive without term/index; stamping them adds 4 bytes of encoding
\* (two varint fields below 128)
\* protobuf size of the two stamped fields: one tag byte each plus the varint
VarintLen(x) == IF x < 128 THEN 1 ELSE IF x < 16384 THEN 2 ELSE IF x < 2097152 THEN 3 ELSE 4
Stamp(e, term, index) == [e EXCEPT !.term = term, !.index = index, !.sz = e.sz + 2 + VarintLen(term) + VarintLen(index)]

\* appendEntry -> [n, ok]
AppendEntry(c, n, d, es) ==
  LET li == LastIndex(n, d)
      stamped == [k \in DOMAIN es |-> Stamp(es[k], n.term, li + k)]
      inc == IncreaseUncommitted(c, n, stamped)
  IN  IF ~inc.ok THEN [n |-> n, ok |-> FALSE]
      ELSE LET n1 == LogAppend(inc.n, stamped)
               n2 == IF Weak("self_ack_after_persist")
                     THEN SetPr(n1, c.id, PrMaybeUpdate(GetPr(n1, c.id), li + Len(es)).pr)
                     ELSE Send(c, n1, [Msg("AppResp", c.id) EXCEPT !.index = li + Len(es)])
           IN  [n |-> n2, ok |-> TRUE]

EmptyEntry == [term |-> 0, index |-> 0, type |-> "N", pid |-> 0, rid |-> 0, cc |-> NoCC, sz |-> 0, psz |-> 0]
\* a conf-change proposal replaced by `&pb.Entry{Type: EntryNormal}` (type field encoded: 2 bytes)
NeutralEntry == [EmptyEntry EXCEPT !.sz = 2]
\* automatic leave-joint proposal: EntryConfChangeV2 with nil data
AutoLeaveEntry == [EmptyEntry EXCEPT !.type = "CC2", !.cc = [trans |-> "auto", changes |-> <<>>], !.sz = 2]

BecomeLeader(c, n, d, rto) ==
  LET n1 == [Reset(c, n, d, n.term, rto) EXCEPT !.lead = c.id, !.role = "L"]
      pr == GetPr(n1, c.id)
      n2 == SetPr(n1, c.id, [PrBecomeReplicate(pr) EXCEPT !.recentActive = TRUE])
      n3 == [n2 EXCEPT !.pendingConf = IF Weak("new_leader_pending_conf") THEN 0 ELSE LastIndex(n, d)]
  IN  AppendEntry(c, n3, d, <<EmptyEntry>>).n

----------------------------------------------------------------------------
(* campaigning                                                                *)
Promotable(c, n) == HasPr(n, c.id) /\ ~GetPr(n, c.id).isLearner /\ ~n.usnap.has

HasUnappliedConfChanges(n, d) ==
  /\ n.applied < n.commit
  /\ \E i \in (n.applied + 1)..n.commit :
        i >= FirstIndex(n, d) /\ i <= LastIndex(n, d) /\ EntryAt(n, d, i).type # "N"

RECURSIVE CampaignSendK(_, _, _, _, _, _, _)
CampaignSendK(c, n, d, ids, k, term, t) ==
  IF k > Len(ids) THEN n
  ELSE LET id == ids[k]
           voteMsg == IF t = "pre" THEN "PreVote" ELSE "Vote"
           respMsg == IF t = "pre" THEN "PreVoteResp" ELSE "VoteResp"
           n1 == IF id = c.id
                 THEN IF Weak("self_vote_after_persist")
                      THEN RecordVote(n, c.id, TRUE)
                      ELSE Send(c, n, [Msg(respMsg, id) EXCEPT !.term = term])
                 ELSE Send(c, n, [Msg(voteMsg, id) EXCEPT !.term = term, !.index = LastIndex(n, d),
                                                          !.logTerm = LastTerm(n, d),
                                                          !.ctxKind = IF t = "transfer" THEN "transfer" ELSE ""])
       IN  CampaignSendK(c, n1, d, ids, k + 1, term, t)

Campaign(c, n, d, t, rto) ==
  LET n1 == IF t = "pre" THEN BecomePreCandidate(c, n) ELSE BecomeCandidate(c, n, d, rto)
      term == IF t = "pre" THEN n1.term + 1 ELSE n1.term
  IN  CampaignSendK(c, n1, d, SortedSeq(AllVoters(n1.cfg)), 1, term, t)

Hup(c, n, d, t, rto) ==
  IF n.role = "L" THEN n
  ELSE IF ~Promotable(c, n) THEN n
  ELSE IF Block("hup_unapplied_conf", HasUnappliedConfChanges(n, d)) THEN n
  ELSE Campaign(c, n, d, t, rto)

----------------------------------------------------------------------------
(* ReadIndex                                                                  *)
CommittedEntryInCurrentTerm(n, d) == ZeroTerm(LogTerm(n, d, n.commit)) = n.term

\* responseToReadIndexReq: local requests become read states, remote ones a message
RespondRead(c, n, req, readIndex) ==
  IF req.from = None \/ req.from = c.id
  THEN [n EXCEPT !.readStates = Append(@, [index |-> readIndex, rid |-> req.entries[1].rid])]
  ELSE Send(c, n, [Msg("ReadIndexResp", req.from) EXCEPT !.index = readIndex, !.entries = req.entries])

RoRecvAck(n, from, pos) ==
  IF pos = 0 THEN n
  ELSE IF \E k \in DOMAIN n.roAcks : n.roAcks[k].id = from
  THEN [n EXCEPT !.roAcks = [k \in DOMAIN @ |-> IF @[k].id = from THEN [@[k] EXCEPT !.pos = Max2(@, pos)] ELSE @[k]]]
  ELSE [n EXCEPT !.roAcks = InsertSorted(@, [id |-> from, pos |-> pos])]

AckPos(n) == [id \in {n.roAcks[k].id : k \in DOMAIN n.roAcks} |->
                LET kk == CHOOSE k \in DOMAIN n.roAcks : n.roAcks[k].id = id IN n.roAcks[kk].pos]

\* sendMsgReadIndexResponse (ReadOnlySafe)
SendReadIndexResponse(c, n, d, m) ==
  \* the sole voter (which must be this node) answers from its commit index
  IF IsSingleton(n) /\ Guard("singleton_read_needs_own_vote", c.id \in VotersIn(n.cfg)) THEN RespondRead(c, n, m, n.commit)
  ELSE
  LET n1 == [n EXCEPT !.roUnc = Append(@, [from |-> m.from, rid |-> m.entries[1].rid, index |-> n.commit])]
      ctx == HeartbeatCtx(n1)
      n2 == RoRecvAck(n1, c.id, ctx.val)
  IN  BcastHeartbeat(c, n2)

RECURSIVE ReleasePendingK(_, _, _, _, _)
ReleasePendingK(c, n, d, msgs, k) ==
  IF k > Len(msgs) THEN n ELSE ReleasePendingK(c, SendReadIndexResponse(c, n, d, msgs[k]), d, msgs, k + 1)
ReleasePendingReadIndex(c, n, d) ==
  IF n.pendingReads = <<>> THEN n
  ELSE IF ~CommittedEntryInCurrentTerm(n, d) THEN n
  ELSE ReleasePendingK(c, [n EXCEPT !.pendingReads = <<>>], d, n.pendingReads, 1)

\* readOnly.maybeAdvance + answering the confirmed reads
\* the entry a ReadIndex request carries: the harness' contexts are "r<rid>." (payload size follows)
ReadEntry(rid) == LET psz == IF rid < 10 THEN 3 ELSE IF rid < 100 THEN 4 ELSE IF rid < 1000 THEN 5 ELSE 6
                  IN  [EmptyEntry EXCEPT !.rid = rid, !.psz = psz, !.sz = psz + 2]
RECURSIVE RespondReadsK(_, _, _, _)
RespondReadsK(c, n, reads, k) ==
  IF k > Len(reads) THEN n
  ELSE RespondReadsK(c, RespondRead(c, n, [BaseMsg EXCEPT !.from = reads[k].from,
                                                          !.entries = <<ReadEntry(reads[k].rid)>>],
                                    reads[k].index), reads, k + 1)
RoMaybeAdvance(c, n) ==
  LET newConfirmed == IF Weak("ro_quorum_ack")
                      THEN n.roConf + Len(n.roUnc)
                      ELSE JointCommitted(VotersIn(n.cfg), VotersOut(n.cfg), AckPos(n))
  IN  IF newConfirmed <= n.roConf \/ newConfirmed >= NoLimit THEN n
      ELSE LET cnt == newConfirmed - n.roConf
               done == Take(n.roUnc, cnt)
               n1 == [n EXCEPT !.roUnc = Drop(@, cnt), !.roConf = newConfirmed]
           IN  RespondReadsK(c, n1, done, 1)

----------------------------------------------------------------------------
(* conf changes                                                               *)
CfgToSt(n) ==
  [voters |-> VotersIn(n.cfg), outgoing |-> VotersOut(n.cfg), learners |-> SeqSet(n.cfg.learners),
   learnersNext |-> SeqSet(n.cfg.learnersNext), autoLeave |-> n.cfg.autoLeave,
   prs |-> [id \in {n.prs[k].id : k \in DOMAIN n.prs} |-> GetPr(n, id).isLearner]]
StToCfg(st) ==
  [voters |-> SortedSeq(st.voters), outgoing |-> SortedSeq(st.outgoing), learners |-> SortedSeq(st.learners),
   learnersNext |-> SortedSeq(st.learnersNext), autoLeave |-> st.autoLeave]
\* progress map after a change: surviving members keep their record, new ones
\* are initialised as confchange.initProgress does
StToPrs(n, st, lastIndex) ==
  LET ids == SortedSeq(DOMAIN st.prs)
  IN  [k \in DOMAIN ids |->
         IF HasPr(n, ids[k]) THEN [GetPr(n, ids[k]) EXCEPT !.isLearner = st.prs[ids[k]]]
         ELSE NewPr(ids[k], 0, Max2(lastIndex, 1), st.prs[ids[k]], TRUE)]

\* switchToConfig
SwitchToConfig(c, n0, d, st, lastIndex, rto) ==
  LET n == [n0 EXCEPT !.cfg = StToCfg(st), !.prs = StToPrs(n0, st, lastIndex)]
      ok == HasPr(n, c.id)
      n1 == [n EXCEPT !.isLearner = ok /\ GetPr(n, c.id).isLearner]
  IN  IF (~ok \/ n1.isLearner) /\ n1.role = "L"
      THEN IF c.stepDownOnRemoval THEN BecomeFollower(c, n1, d, n1.term, None, rto) ELSE n1
      ELSE IF n1.role # "L" \/ Len(n1.cfg.voters) = 0 THEN n1
      ELSE LET mc == MaybeCommit(c, n1, d)
               n2 == IF mc.ok THEN BcastAppend(c, mc.n, d) ELSE BcastMaybeAppendK(c, n1, d, PeerIds(n1), 1)
           IN  IF n2.transferee # 0 /\ n2.transferee \notin AllVoters(n2.cfg)
               THEN [n2 EXCEPT !.transferee = None] ELSE n2

\* RawNode.ApplyConfChange (the change must be applicable: the application vetoes others)
ApplyConfChange(c, n, d, cc, rto) ==
  LET r == CcApply(CfgToSt(n), cc)
  IN  SwitchToConfig(c, n, d, r.st, LastIndex(n, d), rto)

\* the application rejects (does not call ApplyConfChange for) an inapplicable conf change
CCApplicable(n, cc) == CcApply(CfgToSt(n), cc).ok

----------------------------------------------------------------------------
(* appliedTo / appliedSnap (raft.go)                                          *)
\* leader-side handling of a proposal (stepLeader, MsgProp) -> [n, err]
StepLeaderProp(c, n, d, ents0) ==
  IF ~HasPr(n, c.id) THEN [n |-> n, err |-> "dropped"]
  ELSE IF n.transferee # None THEN [n |-> n, err |-> "dropped"]
  ELSE LET
    \* walk the entries, neutralising refused conf changes and tracking pendingConf
    F[k \in 0..Len(ents0)] ==
      IF k = 0 THEN [pc |-> n.pendingConf, ents |-> <<>>]
      ELSE LET prev == F[k - 1]
               e == ents0[k]
           IN  IF e.type = "N" THEN [pc |-> prev.pc, ents |-> Append(prev.ents, e)]
               ELSE LET alreadyPending == prev.pc > n.applied
                        alreadyJoint == IsJointCfg(n.cfg)
                        wantsLeave == Len(e.cc.changes) = 0
                        failed == \/ Block("pending_conf_gate", alreadyPending)
                                  \/ Block("joint_gate", alreadyJoint /\ ~wantsLeave)
                                  \/ Block("leave_joint_gate", ~alreadyJoint /\ wantsLeave)
                    IN  IF failed /\ ~c.disableCCValidation
                        THEN [pc |-> prev.pc, ents |-> Append(prev.ents, NeutralEntry)]
                        ELSE [pc |-> LastIndex(n, d) + k, ents |-> Append(prev.ents, e)]
    res == F[Len(ents0)]
    n1 == [n EXCEPT !.pendingConf = res.pc]
    ap == AppendEntry(c, n1, d, res.ents)
  IN IF ~ap.ok THEN [n |-> n1, err |-> "dropped"]
     ELSE [n |-> BcastAppend(c, ap.n, d), err |-> ""]

AppliedTo(c, n, d, index, size) ==
  LET newApplied == Max2(index, n.applied)
      n1 == LogAppliedTo(c, n, newApplied, size)
  IN  IF ~Weak("auto_leave") /\ n1.cfg.autoLeave /\ newApplied >= n1.pendingConf /\ n1.role = "L"
      THEN StepLeaderProp(c, n1, d, <<AutoLeaveEntry>>).n
      ELSE n1

AppliedSnap(c, n, d, s) == AppliedTo(c, StableSnapTo(n, s.index), d, s.index, 0)

----------------------------------------------------------------------------
(* handlers                                                                   *)
HandleAppendEntries(c, n, d, m) ==
  IF Block("append_below_commit", m.index < n.commit)
  THEN Send(c, n, [Msg("AppResp", m.from) EXCEPT !.index = n.commit])
  ELSE LET r == LogMaybeAppend(n, d, m.index, m.logTerm, m.entries, m.commit) IN
       IF r.ok THEN Send(c, r.n, [Msg("AppResp", m.from) EXCEPT !.index = r.lastnew])
       ELSE LET hint == FindConflictByTerm(n, d, Min2(m.index, LastIndex(n, d)), m.logTerm)
            IN  Send(c, n, [Msg("AppResp", m.from) EXCEPT !.index = m.index, !.reject = TRUE,
                                                         !.hint = hint[1], !.logTerm = hint[2]])

HandleHeartbeat(c, n, d, m) ==
  Send(c, CommitTo(n, m.commit), [Msg("HeartbeatResp", m.from) EXCEPT !.ctxKind = m.ctxKind, !.ctxVal = m.ctxVal])

\* raft.restore -> [n, ok]
Restore(c, n, d, s, rto) ==
  IF Block("restore_index_le_commit", s.index <= n.commit) THEN [n |-> n, ok |-> FALSE]
  ELSE IF n.role # "F" THEN [n |-> BecomeFollower(c, n, d, n.term + 1, None, rto), ok |-> FALSE]
  \* entries handed to the application whose application is not acknowledged yet may contain configuration
  \* changes; the snapshot is not installed over them (repair of finding F8)
  ELSE IF Block("restore_not_while_applying", n.applying > n.applied) THEN [n |-> n, ok |-> FALSE]
  ELSE IF ~Weak("restore_member_only")
          /\ c.id \notin (SeqSet(s.conf.voters) \cup SeqSet(s.conf.learners) \cup SeqSet(s.conf.outgoing))
       THEN [n |-> n, ok |-> FALSE]
  ELSE IF Block("restore_match_fast_forward", MatchTerm(n, d, s.index, s.term))
       THEN [n |-> CommitTo(n, s.index), ok |-> FALSE]
  ELSE LET n1 == LogRestore(n, s)
           cs == [voters |-> SeqSet(s.conf.voters), outgoing |-> SeqSet(s.conf.outgoing),
                  learners |-> SeqSet(s.conf.learners), learnersNext |-> SeqSet(s.conf.learnersNext),
                  autoLeave |-> s.conf.autoLeave]
           r == CcRestore(cs)
           \* a fresh ProgressTracker: no old progress, no votes
           n2 == [n1 EXCEPT !.prs = <<>>, !.votes = <<>>]
       IN  [n |-> SwitchToConfig(c, n2, d, r.st, s.index, rto), ok |-> TRUE]

HandleSnapshot(c, n, d, m, rto) ==
  LET r == Restore(c, n, d, m.snap, rto) IN
  IF r.ok THEN Send(c, r.n, [Msg("AppResp", m.from) EXCEPT !.index = LastIndex(r.n, d)])
  ELSE Send(c, r.n, [Msg("AppResp", m.from) EXCEPT !.index = r.n.commit])

----------------------------------------------------------------------------
(* step functions -> [n, err]                                                 *)
OK(n) == [n |-> n, err |-> ""]
Err(n, e) == [n |-> n, err |-> e]

SendTimeoutNow(c, n, to) == Send(c, n, Msg("TimeoutNow", to))

StepLeader(c, n, d, m, rto) ==
  CASE m.type = "Beat" -> OK(BcastHeartbeat(c, n))
    [] m.type = "CheckQuorum" ->
         LET n1 == IF Block("check_quorum_step_down", ~QuorumActive(n))
                   THEN BecomeFollower(c, n, d, n.term, None, rto) ELSE n
         IN  OK([n1 EXCEPT !.prs = [k \in DOMAIN @ |-> IF @[k].id # c.id THEN [@[k] EXCEPT !.recentActive = FALSE] ELSE @[k]]])
    [] m.type = "Prop" -> StepLeaderProp(c, n, d, m.entries)
    [] m.type = "ReadIndex" ->
         IF Block("ro_wait_own_term_commit", ~CommittedEntryInCurrentTerm(n, d))
         THEN OK([n EXCEPT !.pendingReads = Append(@, m)])
         ELSE OK(SendReadIndexResponse(c, n, d, m))
    [] m.type = "ForgetLeader" -> OK(n)
    [] OTHER ->
       IF ~HasPr(n, m.from) THEN OK(n)
       ELSE LET pr0 == GetPr(n, m.from) IN
       CASE m.type = "AppResp" ->
              LET pr1 == [pr0 EXCEPT !.recentActive = TRUE] IN
              IF m.reject THEN
                LET nextProbe == IF m.logTerm > 0 THEN FindConflictByTerm(n, d, m.hint, m.logTerm)[1] ELSE m.hint
                    dec == PrMaybeDecrTo(pr1, m.index, nextProbe)
                IN  IF dec.ok
                    THEN LET pr2 == IF dec.pr.state = "Replicate" THEN PrBecomeProbe(dec.pr) ELSE dec.pr
                         IN  OK(SendAppend(c, SetPr(n, m.from, pr2), d, m.from))
                    ELSE OK(SetPr(n, m.from, pr1))
              ELSE
                LET up == PrMaybeUpdate(pr1, m.index) IN
                IF up.ok \/ (up.pr.match = m.index /\ up.pr.state = "Probe")
                THEN LET pr2 == CASE up.pr.state = "Probe" -> PrBecomeReplicate(up.pr)
                                  [] up.pr.state = "Snapshot" /\ up.pr.match + 1 >= FirstIndex(n, d) ->
                                       PrBecomeReplicate(PrBecomeProbe(up.pr))
                                  [] up.pr.state = "Replicate" -> [up.pr EXCEPT !.inflights = FreeLEk(@, m.index)]
                                  [] OTHER -> up.pr
                         n1 == SetPr(n, m.from, pr2)
                         mc == MaybeCommit(c, n1, d)
                         n2 == IF mc.ok THEN BcastAppend(c, ReleasePendingReadIndex(c, mc.n, d), d)
                               ELSE IF c.id # m.from /\ PrCanBumpCommit(GetPr(n1, m.from), n1.commit)
                                    THEN SendAppend(c, n1, d, m.from) ELSE n1
                         n3 == IF c.id # m.from THEN SendAppendsWhilePossible(c, n2, d, m.from, 16) ELSE n2
                         n4 == IF m.from = n3.transferee /\ GetPr(n3, m.from).match = LastIndex(n3, d)
                               THEN SendTimeoutNow(c, n3, m.from) ELSE n3
                     IN  OK(n4)
                ELSE OK(SetPr(n, m.from, up.pr))
         [] m.type = "HeartbeatResp" ->
              LET pr1 == [pr0 EXCEPT !.recentActive = TRUE, !.paused = FALSE]
                  n1 == SetPr(n, m.from, pr1)
                  n2 == IF pr1.match < LastIndex(n1, d) \/ pr1.state = "Probe" THEN SendAppend(c, n1, d, m.from) ELSE n1
              IN  IF m.ctxKind # "pos" THEN OK(n2)
                  ELSE OK(RoMaybeAdvance(c, RoRecvAck(n2, m.from, m.ctxVal)))
         [] m.type = "SnapStatus" ->
              IF pr0.state # "Snapshot" THEN OK(n)
              ELSE LET pr1 == IF ~m.reject THEN PrBecomeProbe(pr0) ELSE PrBecomeProbe([pr0 EXCEPT !.pendingSnap = 0])
                   IN  OK(SetPr(n, m.from, [pr1 EXCEPT !.paused = TRUE]))
         [] m.type = "Unreachable" ->
              OK(IF pr0.state = "Replicate" THEN SetPr(n, m.from, PrBecomeProbe(pr0)) ELSE n)
         [] m.type = "TransferLeader" ->
              IF pr0.isLearner THEN OK(n)
              ELSE IF n.transferee # None /\ n.transferee = m.from THEN OK(n)
              ELSE LET n1 == [n EXCEPT !.transferee = None] IN
                   IF m.from = c.id THEN OK(n1)
                   ELSE LET n2 == [n1 EXCEPT !.ee = 0, !.transferee = m.from]
                        IN  IF pr0.match = LastIndex(n2, d) THEN OK(SendTimeoutNow(c, n2, m.from))
                            ELSE OK(SendAppend(c, n2, d, m.from))
         [] OTHER -> OK(n)

StepCandidate(c, n, d, m, rto) ==
  LET myResp == IF n.role = "PC" THEN "PreVoteResp" ELSE "VoteResp" IN
  CASE m.type = "Prop" -> Err(n, "dropped")
    [] m.type = "App" -> OK(HandleAppendEntries(c, BecomeFollower(c, n, d, m.term, m.from, rto), d, m))
    [] m.type = "Heartbeat" -> OK(HandleHeartbeat(c, BecomeFollower(c, n, d, m.term, m.from, rto), d, m))
    [] m.type = "Snap" -> OK(HandleSnapshot(c, BecomeFollower(c, n, d, m.term, m.from, rto), d, m, rto))
    [] m.type = myResp ->
         \* a granted pre-vote carries the term it was granted for; one for an earlier pre-campaign is ignored
         IF ~Weak("prevote_grant_for_this_term") /\ n.role = "PC" /\ ~m.reject /\ m.term # n.term + 1 THEN OK(n)
         ELSE
         LET n1 == RecordVote(n, m.from, ~m.reject)
             res == TallyVotes(n1)
             ownVote == \E k \in DOMAIN n1.votes : n1.votes[k].id = c.id /\ n1.votes[k].v
         IN  CASE res = "Won" ->
                    IF n1.role = "PC" THEN OK(Campaign(c, n1, d, "election", rto))
                    \* the own vote (and term) must be durable first: wait for the self-addressed MsgVoteResp
                    ELSE IF Block("leader_after_own_vote_durable", ~ownVote) THEN OK(n1)
                    ELSE OK(BcastAppend(c, BecomeLeader(c, n1, d, rto), d))
               [] res = "Lost" -> OK(BecomeFollower(c, n1, d, n1.term, None, rto))
               [] OTHER -> OK(n1)
    [] OTHER -> OK(n)

StepFollower(c, n, d, m, rto) ==
  CASE m.type = "Prop" ->
         IF n.lead = None THEN Err(n, "dropped")
         ELSE IF c.disableForwarding THEN Err(n, "dropped")
         ELSE OK(Send(c, n, [m EXCEPT !.to = n.lead]))
    [] m.type = "App" -> OK(HandleAppendEntries(c, [n EXCEPT !.ee = 0, !.lead = m.from], d, m))
    [] m.type = "Heartbeat" -> OK(HandleHeartbeat(c, [n EXCEPT !.ee = 0, !.lead = m.from], d, m))
    [] m.type = "Snap" -> OK(HandleSnapshot(c, [n EXCEPT !.ee = 0, !.lead = m.from], d, m, rto))
    [] m.type = "TransferLeader" -> IF n.lead = None THEN OK(n) ELSE OK(Send(c, n, [m EXCEPT !.to = n.lead]))
    [] m.type = "ForgetLeader" -> OK([n EXCEPT !.lead = None])
    [] m.type = "TimeoutNow" -> OK(Hup(c, n, d, "transfer", rto))
    [] m.type = "ReadIndex" -> IF n.lead = None THEN OK(n) ELSE OK(Send(c, n, [m EXCEPT !.to = n.lead]))
    [] m.type = "ReadIndexResp" ->
         IF Len(m.entries) # 1 THEN OK(n)
         ELSE OK([n EXCEPT !.readStates = Append(@, [index |-> m.index, rid |-> m.entries[1].rid])])
    [] OTHER -> OK(n)

\* raft.Step -> [n, err]
Step(c, n0, d, m, rto) ==
  LET
    \* --- term preamble ---
    inLease == c.checkQuorum /\ n0.lead # None /\ n0.ee < c.electionTick
    force == m.ctxKind = "transfer"
    ignoredByLease == m.term > n0.term /\ m.type \in {"Vote", "PreVote"} /\ ~force
                      /\ Block("lease_ignores_vote", inLease)
    n == IF m.term = 0 \/ m.term <= n0.term THEN n0
         ELSE IF m.type = "PreVote" /\ ~Weak("prevote_keeps_term") THEN n0
         ELSE IF m.type = "PreVoteResp" /\ ~m.reject THEN n0
         ELSE IF m.type \in {"App", "Heartbeat", "Snap"} THEN BecomeFollower(c, n0, d, m.term, m.from, rto)
         ELSE BecomeFollower(c, n0, d, m.term, None, rto)
  IN
  IF ignoredByLease THEN OK(n0)
  ELSE IF m.term # 0 /\ m.term < n0.term /\ ~Weak("stale_term_ignored") THEN
    \* (regardless of the local CheckQuorum / PreVote setting: repair of finding F7)
    IF m.type \in {"Heartbeat", "App"}
    THEN OK(Send(c, n0, Msg("AppResp", m.from)))
    ELSE IF m.type = "PreVote"
    THEN OK(Send(c, n0, [Msg("PreVoteResp", m.from) EXCEPT !.term = n0.term, !.reject = TRUE]))
    ELSE IF m.type = "StorageAppendResp"
    THEN OK(IF m.snap.has THEN AppliedSnap(c, n0, d, m.snap) ELSE n0)
    ELSE OK(n0)
  ELSE
  CASE m.type = "Hup" -> OK(Hup(c, n, d, IF c.preVote THEN "pre" ELSE "election", rto))
    [] m.type = "StorageAppendResp" ->
         LET n1 == IF m.index # 0 THEN StableTo(n, m.index, m.logTerm) ELSE n
         IN  OK(IF m.snap.has THEN AppliedSnap(c, n1, d, m.snap) ELSE n1)
    [] m.type = "StorageApplyResp" ->
         IF Len(m.entries) = 0 THEN OK(n)
         ELSE OK(ReduceUncommitted(AppliedTo(c, n, d, Last(m.entries).index, SumBy(m.entries, "sz")),
                                   PayloadBytes(m.entries)))
    [] m.type \in {"Vote", "PreVote"} ->
         LET canVote == \/ n.vote = m.from
                        \/ (n.vote = None /\ n.lead = None)
                        \/ (m.type = "PreVote" /\ m.term > n.term)
             upToDate == IsUpToDate(n, d, m.index, m.logTerm)
             respType == IF m.type = "Vote" THEN "VoteResp" ELSE "PreVoteResp"
         IN  IF Guard("vote_once", canVote) /\ Guard("vote_up_to_date", upToDate)
             THEN LET n1 == Send(c, n, [Msg(respType, m.from) EXCEPT !.term = m.term])
                  IN  OK(IF m.type = "Vote" THEN [n1 EXCEPT !.ee = 0, !.vote = m.from] ELSE n1)
             ELSE OK(Send(c, n, [Msg(respType, m.from) EXCEPT !.term = n.term, !.reject = TRUE]))
    [] OTHER ->
         CASE n.role = "L" -> StepLeader(c, n, d, m, rto)
           [] n.role \in {"C", "PC"} -> StepCandidate(c, n, d, m, rto)
           [] OTHER -> StepFollower(c, n, d, m, rto)

----------------------------------------------------------------------------
(* ticks                                                                      *)
TickElection(c, n, d, rto) ==
  LET n1 == [n EXCEPT !.ee = @ + 1] IN
  IF Promotable(c, n1) /\ n1.ee >= n1.rto
  THEN Step(c, [n1 EXCEPT !.ee = 0], d, [Msg("Hup", 0) EXCEPT !.from = c.id], rto).n
  ELSE n1

TickHeartbeat(c, n, d, rto) ==
  LET n1 == [n EXCEPT !.he = @ + 1, !.ee = @ + 1]
      n2 == IF n1.ee >= c.electionTick
            THEN LET a == [n1 EXCEPT !.ee = 0]
                     b == IF c.checkQuorum THEN Step(c, a, d, [Msg("CheckQuorum", 0) EXCEPT !.from = c.id], rto).n ELSE a
                 IN  IF b.role = "L" /\ b.transferee # None THEN [b EXCEPT !.transferee = None] ELSE b
            ELSE n1
  IN  IF n2.role # "L" THEN n2
      ELSE IF n2.he >= c.heartbeatTick
      THEN Step(c, [n2 EXCEPT !.he = 0], d, [Msg("Beat", 0) EXCEPT !.from = c.id], rto).n
      ELSE n2

Tick(c, n, d, rto) == IF n.role = "L" THEN TickHeartbeat(c, n, d, rto) ELSE TickElection(c, n, d, rto)

----------------------------------------------------------------------------
(* RawNode: Step filter, Ready, Advance                                       *)
IsLocalMsgType(t) == t \in {"Hup", "Beat", "Unreachable", "SnapStatus", "CheckQuorum",
                            "StorageAppend", "StorageAppendResp", "StorageApply", "StorageApplyResp"}
IsResponseType(t) == t \in {"AppResp", "VoteResp", "HeartbeatResp", "Unreachable", "ReadIndexResp",
                            "PreVoteResp", "StorageAppendResp", "StorageApplyResp"}
IsLocalTarget(id) == id \in {AppendThread, ApplyThread}

RawStep(c, n, d, m, rto) ==
  IF IsLocalMsgType(m.type) /\ ~IsLocalTarget(m.from) THEN Err(n, "err:local")
  ELSE IF IsResponseType(m.type) /\ ~IsLocalTarget(m.from) /\ ~HasPr(n, m.from) THEN Err(n, "err:peer")
  ELSE Step(c, n, d, m, rto)

HardStateOf(n) == HS(n.term, n.vote, n.commit)
HSEq(a, b) == a.term = b.term /\ a.vote = b.vote /\ a.commit = b.commit

StorageAppendRespMsg(c, n, d, rdSnap) ==
  LET m0 == [Msg("StorageAppendResp", c.id) EXCEPT !.from = AppendThread, !.term = n.term]
      m1 == IF ULen(n) > 0 THEN [m0 EXCEPT !.index = LastIndex(n, d), !.logTerm = LastTerm(n, d)] ELSE m0
  IN  IF rdSnap.has THEN [m1 EXCEPT !.snap = rdSnap] ELSE m1
StorageApplyRespMsg(c, ents) ==
  [Msg("StorageApplyResp", c.id) EXCEPT !.from = ApplyThread, !.entries = ents]

\* Ready() = readyWithoutAccept + acceptReady -> [n, rd]
ReadyOf(c, n, d) ==
  LET allowUnstable == ~c.async
      ents == Drop(n.uents, n.uoffip - n.uoff)
      committed == NextCommittedEnts(c, n, d, allowUnstable)
      ssNow == [has |-> TRUE, lead |-> n.lead, role |-> n.role]
      ss == IF ssNow.lead # n.prevSS.lead \/ ssNow.role # n.prevSS.role THEN ssNow ELSE NoSS
      hsNow == HardStateOf(n)
      hs == IF ~HSEq(hsNow, n.prevHS) THEN hsNow ELSE NoHS
      snap == IF n.usnap.has /\ ~n.usnapip THEN n.usnap ELSE NoSnap
      mustSync == Len(ents) # 0 \/ hsNow.vote # n.prevHS.vote \/ hsNow.term # n.prevHS.term
      needAppendResp == ULen(n) > 0 \/ snap.has
      appendResp == StorageAppendRespMsg(c, n, d, snap)
      needAppendMsg == Len(ents) > 0 \/ hs.has \/ snap.has \/ Len(n.after) > 0
      appendMsg == [Msg("StorageAppend", AppendThread) EXCEPT
                      !.from = c.id, !.entries = ents,
                      !.term = IF hs.has THEN hs.term ELSE 0, !.vote = IF hs.has THEN hs.vote ELSE 0,
                      !.commit = IF hs.has THEN hs.commit ELSE 0,
                      !.snap = snap,
                      !.responses = IF needAppendResp THEN Append(n.after, appendResp) ELSE n.after]
      applyMsg == [Msg("StorageApply", ApplyThread) EXCEPT !.from = c.id, !.entries = committed,
                                                          !.responses = <<StorageApplyRespMsg(c, committed)>>]
      msgs == IF c.async
              THEN n.msgs \o (IF needAppendMsg THEN <<appendMsg>> ELSE <<>>)
                          \o (IF Len(committed) > 0 THEN <<applyMsg>> ELSE <<>>)
              ELSE n.msgs \o SelectSeq(n.after, LAMBDA x : x.to # c.id)
      rd == [has |-> TRUE, ss |-> ss, hs |-> hs, ents |-> ents, snap |-> snap, committed |-> committed,
             msgs |-> msgs, readStates |-> n.readStates, mustSync |-> mustSync]
      \* acceptReady
      soa == IF c.async THEN n.soa
             ELSE SelectSeq(n.after, LAMBDA x : x.to = c.id)
                  \o (IF needAppendResp THEN <<appendResp>> ELSE <<>>)
                  \o (IF Len(committed) > 0 THEN <<StorageApplyRespMsg(c, committed)>> ELSE <<>>)
      n1 == [n EXCEPT !.prevSS = IF ss.has THEN ss ELSE @,
                      !.prevHS = IF hs.has THEN hs ELSE @,
                      !.readStates = <<>>, !.soa = soa, !.msgs = <<>>, !.after = <<>>]
      n2 == AcceptUnstable(n1)
      n3 == IF Len(committed) > 0
            THEN AcceptApplying(c, n2, Last(committed).index, SumBy(committed, "sz"), allowUnstable)
            ELSE n2
  IN  [n |-> n3, rd |-> rd]

HasReady(c, n, d) ==
  \/ n.lead # n.prevSS.lead \/ n.role # n.prevSS.role
  \/ (HardStateOf(n).has /\ ~HSEq(HardStateOf(n), n.prevHS))
  \/ (n.usnap.has /\ ~n.usnapip)
  \/ Len(n.msgs) > 0 \/ Len(n.after) > 0
  \/ Len(Drop(n.uents, n.uoffip - n.uoff)) > 0
  \/ (~n.applyPaused /\ ~n.usnap.has /\ n.applying < MaxAppliable(n, ~c.async))
  \/ Len(n.readStates) # 0

RECURSIVE StepAllK(_, _, _, _, _, _)
StepAllK(c, n, d, msgs, k, rto) ==
  IF k > Len(msgs) THEN n ELSE StepAllK(c, Step(c, n, d, msgs[k], rto).n, d, msgs, k + 1, rto)

Advance(c, n, d, rto) == [StepAllK(c, n, d, n.soa, 1, rto) EXCEPT !.soa = <<>>]

----------------------------------------------------------------------------
(* newRaft / NewRawNode from storage                                          *)
NewRawNode(c, d, applied, rto) ==
  LET r == CcRestore([voters |-> SeqSet(d.snap.conf.voters), outgoing |-> SeqSet(d.snap.conf.outgoing),
                      learners |-> SeqSet(d.snap.conf.learners), learnersNext |-> SeqSet(d.snap.conf.learnersNext),
                      autoLeave |-> d.snap.conf.autoLeave])
      last == StLast(d)
      n0 == [DownNode EXCEPT !.up = TRUE, !.uoff = last + 1, !.uoffip = last + 1,
                             !.commit = d.cidx, !.applying = d.cidx, !.applied = d.cidx]
      n1 == SwitchToConfig(c, n0, d, r.st, last, rto)
      n2 == IF d.hs.has THEN [n1 EXCEPT !.commit = d.hs.commit, !.term = d.hs.term, !.vote = d.hs.vote] ELSE n1
      n3 == IF applied > 0 /\ ~Weak("restart_honours_applied") THEN LogAppliedTo(c, n2, applied, 0) ELSE n2
      n4 == BecomeFollower(c, n3, d, n3.term, None, rto)
  IN  [n4 EXCEPT !.prevSS = [has |-> TRUE, lead |-> n4.lead, role |-> n4.role], !.prevHS = HardStateOf(n4)]
=============================================================================
