----------------------------- MODULE ConfChange -----------------------------
(* Configuration algebra (property C13) -- the abstract counterpart of         *)
(* confchange.Changer.{Simple,EnterJoint,LeaveJoint}, confchange.Restore and  *)
(* tracker.Config.  A configuration state is                                   *)
(*   [voters, outgoing, learners, learnersNext : SUBSET Id, autoLeave : BOOL,  *)
(*    prs : [some ids -> BOOLEAN]]   (prs[id] = that progress is a learner)    *)
(* A conf change is [trans \in {"auto","implicit","explicit"},                 *)
(*                   changes : Seq([t \in {"v","l","r","u"}, id : Nat])].      *)
EXTENDS Integers, Sequences, FiniteSets

EmptyCfg == [voters |-> {}, outgoing |-> {}, learners |-> {}, learnersNext |-> {},
             autoLeave |-> FALSE, prs |-> <<>>]

IsJoint(st) == st.outgoing # {}

CcHasPr(st, id) == id \in DOMAIN st.prs
WithPr(st, id, lrn) == [x \in (DOMAIN st.prs) \cup {id} |-> IF x = id THEN lrn ELSE st.prs[x]]
WithoutPr(st, id) == [x \in (DOMAIN st.prs) \ {id} |-> st.prs[x]]

\* --- the invariants every reachable configuration must satisfy (C13) -------
ConfInv(st) ==
  /\ (st.voters \cup st.outgoing) \cap st.learners = {}          \* voters and learners disjoint
  /\ st.learnersNext \subseteq st.outgoing                        \* staged learners are outgoing voters
  /\ st.learnersNext \cap st.learners = {}
  /\ DOMAIN st.prs = st.voters \cup st.outgoing \cup st.learners \cup st.learnersNext
                                                                  \* one progress per member, none for others
  /\ \A id \in DOMAIN st.prs : st.prs[id] <=> id \in st.learners  \* learner flag consistent
  /\ (~IsJoint(st) => st.learnersNext = {} /\ ~st.autoLeave)

\* --- single changes ------------------------------------------------------------
CcRemove(st, id) ==
  IF ~CcHasPr(st, id) THEN st
  ELSE LET s1 == [st EXCEPT !.voters = @ \ {id}, !.learners = @ \ {id}, !.learnersNext = @ \ {id}]
       IN  IF id \in st.outgoing THEN s1 ELSE [s1 EXCEPT !.prs = WithoutPr(s1, id)]

CcMakeVoter(st, id) ==
  IF ~CcHasPr(st, id)
  THEN [st EXCEPT !.voters = @ \cup {id}, !.prs = WithPr(st, id, FALSE)]
  ELSE [st EXCEPT !.voters = @ \cup {id}, !.learners = @ \ {id}, !.learnersNext = @ \ {id},
                  !.prs = WithPr(st, id, FALSE)]

CcMakeLearner(st, id) ==
  IF ~CcHasPr(st, id)
  THEN [st EXCEPT !.learners = @ \cup {id}, !.prs = WithPr(st, id, TRUE)]
  ELSE IF st.prs[id] THEN st
  ELSE LET s1 == CcRemove(st, id)
       IN  IF id \in st.outgoing
           THEN [s1 EXCEPT !.learnersNext = @ \cup {id}, !.prs = WithPr(s1, id, FALSE)]
           ELSE [s1 EXCEPT !.learners = @ \cup {id}, !.prs = WithPr(s1, id, TRUE)]

CcOne(st, ch) ==
  IF ch.id = 0 THEN st
  ELSE CASE ch.t = "v" -> CcMakeVoter(st, ch.id)
         [] ch.t = "l" -> CcMakeLearner(st, ch.id)
         [] ch.t = "r" -> CcRemove(st, ch.id)
         [] OTHER      -> st                      \* "u": update, no membership effect

RECURSIVE CcFold(_, _)
CcFold(st, chs) == IF chs = <<>> THEN st ELSE CcFold(CcOne(st, Head(chs)), Tail(chs))

Rejected(st) == [ok |-> FALSE, st |-> st]
Accepted(st) == [ok |-> TRUE, st |-> st]

SymDiff(a, b) == Cardinality((a \ b) \cup (b \ a))

\* --- the three operations; a rejected change leaves the input untouched --------
CcSimple(st, chs) ==
  IF IsJoint(st) THEN Rejected(st)
  ELSE LET s1 == CcFold(st, chs)
       IN  IF s1.voters = {} THEN Rejected(st)
           ELSE IF SymDiff(st.voters, s1.voters) > 1 THEN Rejected(st)
           ELSE Accepted(s1)

CcEnterJoint(st, autoLeave, chs) ==
  IF IsJoint(st) \/ st.voters = {} THEN Rejected(st)
  ELSE LET s0 == [st EXCEPT !.outgoing = st.voters]
           s1 == CcFold(s0, chs)
       IN  IF s1.voters = {} THEN Rejected(st)
           ELSE Accepted([s1 EXCEPT !.autoLeave = autoLeave])

CcLeaveJoint(st) ==
  IF ~IsJoint(st) THEN Rejected(st)
  ELSE LET lrn == st.learners \cup st.learnersNext
           gone == {id \in st.outgoing : id \notin st.voters /\ id \notin lrn}
           prs1 == [id \in (DOMAIN st.prs) \ gone |-> IF id \in st.learnersNext THEN TRUE ELSE st.prs[id]]
       IN  Accepted([st EXCEPT !.learners = lrn, !.learnersNext = {}, !.outgoing = {},
                               !.autoLeave = FALSE, !.prs = prs1])

\* --- ConfChangeV2 dispatch (raftpb/confchange.go EnterJoint/LeaveJoint) ----------
CcIsLeaveJoint(cc) == cc.trans = "auto" /\ cc.changes = <<>>
CcEntersJoint(cc)  == cc.trans # "auto" \/ Len(cc.changes) > 1
CcAutoLeave(cc)    == cc.trans \in {"auto", "implicit"}

CcApply(st, cc) ==
  IF CcIsLeaveJoint(cc) THEN CcLeaveJoint(st)
  ELSE IF CcEntersJoint(cc) THEN CcEnterJoint(st, CcAutoLeave(cc), cc.changes)
  ELSE CcSimple(st, cc.changes)

\* --- ConfState round trip (confchange/restore.go) ----------------------------------
\* The ConfState of a configuration is its five components; Restore replays it as
\* simple changes (+ one EnterJoint) and must reproduce an equivalent configuration.
ConfStateOf(st) == [voters |-> st.voters, outgoing |-> st.outgoing, learners |-> st.learners,
                    learnersNext |-> st.learnersNext, autoLeave |-> st.autoLeave]

RECURSIVE SetToSeq(_)
SetToSeq(S) == IF S = {} THEN <<>>
               ELSE LET m == CHOOSE x \in S : \A y \in S : x <= y IN <<m>> \o SetToSeq(S \ {m})

RECURSIVE CcChainSimple(_, _)
CcChainSimple(res, chs) ==
  IF chs = <<>> \/ ~res.ok THEN res
  ELSE CcChainSimple(CcSimple(res.st, <<Head(chs)>>), Tail(chs))

CcRestore(cs) ==
  LET mk(t, S) == [k \in 1..Cardinality(S) |-> [t |-> t, id |-> SetToSeq(S)[k]]]
      incoming == mk("v", cs.voters) \o mk("l", cs.learners) \o mk("l", cs.learnersNext)
      outgoing == mk("v", cs.outgoing)
  IN  IF cs.outgoing = {}
      THEN CcChainSimple(Accepted(EmptyCfg), incoming)
      ELSE LET r1 == CcChainSimple(Accepted(EmptyCfg), outgoing)
           IN  IF ~r1.ok THEN r1
               ELSE CcEnterJoint(r1.st, cs.autoLeave,
                                 \* the incoming voters are added while the outgoing ones are removed
                                 [k \in 1..Cardinality(cs.outgoing) |-> [t |-> "r", id |-> SetToSeq(cs.outgoing)[k]]]
                                 \o incoming)
=============================================================================
