SPECIFICATION Spec
CONSTANTS
  Node = {1, 2}
  Weaken = {}
  MCCl <- Cl2Async
  PszSet <- Psz1
  CCSet <- NoCCs
  Actors <- ActorsOne
  Bound <- BoundTiny
INVARIANT AllInvariants
CONSTRAINT StateBound
VIEW View
CHECK_DEADLOCK FALSE
