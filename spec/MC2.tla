-------------------------------- MODULE MC2 ---------------------------------
(* Exhaustive instance E1: two voters.  The complete state graph within the   *)
(* bounds of the cfg is explored (DESIGN.md 7).                               *)
EXTENDS Raft

NodeCfg(i, initial, async, preVote, checkQuorum) ==
  [id |-> i, preVote |-> preVote, checkQuorum |-> checkQuorum, async |-> async, stepDownOnRemoval |-> FALSE,
   disableCCValidation |-> FALSE, disableForwarding |-> FALSE, electionTick |-> 2, heartbeatTick |-> 1,
   maxSizePerMsg |-> NoLimit, maxCommittedSize |-> 0, maxUncommittedSize |-> 0, maxInflightMsgs |-> 2,
   maxInflightBytes |-> 0, initial |-> initial, exists |-> initial]

Conf2 == [voters |-> <<1, 2>>, outgoing |-> <<>>, learners |-> <<>>, learnersNext |-> <<>>, autoLeave |-> FALSE]
Cl2Sync == [nodes |-> [i \in Node |-> NodeCfg(i, i \in {1, 2}, FALSE, FALSE, FALSE)], conf |-> Conf2]
Cl2Async == [nodes |-> [i \in Node |-> NodeCfg(i, i \in {1, 2}, TRUE, FALSE, FALSE)], conf |-> Conf2]
Cl2PreVote == [nodes |-> [i \in Node |-> NodeCfg(i, i \in {1, 2}, FALSE, TRUE, TRUE)], conf |-> Conf2]

NoOne == {}
All == Node
ActorsElection == [Tick |-> {}, Campaign |-> {1, 2}, Propose |-> {1, 2}, ProposeConfChange |-> {}, ReadIndex |-> {},
                   Crash |-> {1, 2}, TransferLeader |-> {}, ForgetLeader |-> {}, ReportUnreachable |-> {}, ReportSnapshot |-> {}]
BoundSmall == [Tick |-> 0, Campaign |-> 2, Propose |-> 1, ProposeConfChange |-> 0, ReadIndex |-> 0, Crash |-> 1, Dup |-> 1, Drop |-> 0,
               Snapshot |-> 0, Compact |-> 0, TransferLeader |-> 0, ForgetLeader |-> 0, ReportUnreachable |-> 0, ReportSnapshot |-> 0, Defer |-> 0, Atomic |-> 0,
               Term |-> 2, Index |-> 3, Net |-> 4]
ActorsOne == [Tick |-> {}, Campaign |-> {1}, Propose |-> {1}, ProposeConfChange |-> {}, ReadIndex |-> {},
              Crash |-> {2}, TransferLeader |-> {}, ForgetLeader |-> {}, ReportUnreachable |-> {}, ReportSnapshot |-> {}]
BoundTiny == [Tick |-> 0, Campaign |-> 1, Propose |-> 1, ProposeConfChange |-> 0, ReadIndex |-> 0, Crash |-> 0, Dup |-> 0, Drop |-> 0,
              Snapshot |-> 0, Compact |-> 0, TransferLeader |-> 0, ForgetLeader |-> 0, ReportUnreachable |-> 0, ReportSnapshot |-> 0, Defer |-> 0, Atomic |-> 0,
              Term |-> 1, Index |-> 3, Net |-> 4]
BoundTinyCrash == [BoundTiny EXCEPT !.Crash = 1]
BoundTinyDup == [BoundTiny EXCEPT !.Dup = 1]
ActorsTwo == [Tick |-> {}, Campaign |-> {1, 2}, Propose |-> {1, 2}, ProposeConfChange |-> {}, ReadIndex |-> {},
              Crash |-> {1, 2}, TransferLeader |-> {}, ForgetLeader |-> {}, ReportUnreachable |-> {}, ReportSnapshot |-> {}]
BoundS2 == [Tick |-> 0, Campaign |-> 2, Propose |-> 1, ProposeConfChange |-> 0, ReadIndex |-> 0, Crash |-> 1, Dup |-> 1, Drop |-> 0,
            Snapshot |-> 0, Compact |-> 0, TransferLeader |-> 0, ForgetLeader |-> 0, ReportUnreachable |-> 0, ReportSnapshot |-> 0, Defer |-> 0, Atomic |-> 0,
            Term |-> 2, Index |-> 3, Net |-> 4]
WeakenSet == {}
Psz1 == {3}
NoCCs == {}
=============================================================================
