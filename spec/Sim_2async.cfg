SPECIFICATION Spec
CONSTANTS
  Node = {1, 2}
  Weaken = {}
  MCCl <- Cl2Async
  PszSet <- Psz1
  CCSet <- NoCCs
  Actors <- ActorsTwo
  Bound <- BoundS2
INVARIANT SimLog
CONSTRAINT StateBound
CHECK_DEADLOCK FALSE
