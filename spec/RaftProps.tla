----------------------------- MODULE RaftProps ------------------------------
(* The twenty properties C01..C20 as TLA+ formulas over the state and history *)
(* variables of RaftState.  Every formula is a state predicate: the "action"  *)
(* properties use the event record `act`, which carries the acting node's     *)
(* pre-state, so the same formulas serve as INVARIANTS when TLC checks the     *)
(* model and when it evaluates real executions (Observe mode).                 *)
EXTENDS RaftState

A == act
I == act.node
Acting == act.node \in Node
Pre == act.pre
Post == node[act.node]
PostD == disk[act.node]
PreD == act.preDisk
SD(i) == app[i].sd          \* synced storage image of node i
PostSD == app[act.node].sd
PreSD == act.preSD
ActUp == Acting /\ Post.up
BothUp == ActUp /\ Pre.up /\ A.name \notin {"Restart", "Boot"}
NewMsgs == IF ~BothUp \/ A.name = "Ready" THEN <<>> ELSE NewSeq(Pre.msgs, Post.msgs)
NewAfter == IF ~BothUp \/ A.name = "Ready" THEN <<>> ELSE NewSeq(Pre.after, Post.after)
BecameLeader == ActUp /\ Post.role = "L" /\ ~(Pre.up /\ Pre.role = "L" /\ Pre.term = Post.term /\ A.name \notin {"Restart", "Boot"})
\* did the acting node's log (or its storage) change in this step?  The pure log predicates
\* need not be re-evaluated otherwise (nothing they depend on changed for that node).
LogChanged == ~BothUp \/ Post.uents # Pre.uents \/ Post.uoff # Pre.uoff \/ Post.usnap # Pre.usnap
              \/ PostD.ents # PreD.ents \/ PostD.cidx # PreD.cidx \/ A.name \in {"Crash", "CrashInAppend"}
IsProposeAct == A.name \in {"Propose", "ProposeConfChange", "ProposeBatch"}
StrictMajorityOf(Q, S) == S = {} \/ IsStrictMajority(Q \cap S, S)

----------------------------------------------------------------------------
(* C01 State-machine safety                                                   *)
\* every index a node considers committed holds the entry first committed there
C01_CommittedStable ==
  ActUp =>
    /\ \A k \in FirstIndex(Post, PostD)..Post.commit :
         (k \in DOMAIN hist.gc /\ HasIndex(Post, PostD, k)) => Key(EntryAt(Post, PostD, k)) = hist.gc[k].key
    /\ LET b == BaseIndex(Post, PostD) IN
         (b \in DOMAIN hist.gc) => hist.gc[b].key.term = BaseTerm(Post, PostD)
\* whatever is handed to the application equals the committed entry of that index
C01_AppliedAgree ==
  (Acting /\ A.name = "Ready" /\ A.rd.has) =>
    /\ \A k \in DOMAIN A.rd.committed :
         LET e == A.rd.committed[k] IN e.index \in DOMAIN hist.gc /\ Key(e) = hist.gc[e.index].key
    /\ (A.rd.snap.has /\ A.rd.snap.index \in DOMAIN hist.gc) => hist.gc[A.rd.snap.index].key.term = A.rd.snap.term
\* the application-side view: what the state machine applies
C01_ApplyAgree ==
  (Acting /\ A.name \in {"Apply", "ApplyThread"}) =>
    \A k \in DOMAIN A.ents : LET e == A.ents[k] IN e.index \in DOMAIN hist.gc /\ Key(e) = hist.gc[e.index].key

----------------------------------------------------------------------------
(* C02 Election safety                                                        *)
C02_OneLeaderPerTerm == \A t \in DOMAIN hist.leaders : Cardinality(hist.leaders[t]) <= 1
C02_OneVotePerTerm == \A vt \in DOMAIN hist.grants : Cardinality(hist.grants[vt]) <= 1
C02_VoteOnlyUpToDate ==
  (BothUp /\ A.name = "Deliver" /\ A.msg.type = "Vote") =>
    \A k \in DOMAIN NewAfter :
      (NewAfter[k].type = "VoteResp" /\ ~NewAfter[k].reject /\ NewAfter[k].to = A.msg.from)
        => IsUpToDate(Pre, PostD, A.msg.index, A.msg.logTerm)
C02_LeaderHasQuorum ==
  BecameLeader =>
    LET got == MapGet(hist.votesRecv, <<I, A.inc, Post.term>>, {})
    IN  StrictMajorityOf(got, VotersIn(Post.cfg)) /\ StrictMajorityOf(got, VotersOut(Post.cfg))
C02_RestartKeepsVote ==
  (ActUp /\ A.name = "Restart" /\ PostD.hs.has) => (Post.term = PostD.hs.term /\ Post.vote = PostD.hs.vote)

----------------------------------------------------------------------------
(* C03 Log matching                                                           *)
WellFormedLog(n, d) ==
  /\ \A k \in DOMAIN d.ents : d.ents[k].index = d.cidx + k
  /\ \A k \in DOMAIN d.ents : d.ents[k].term >= (IF k = 1 THEN d.cterm ELSE d.ents[k - 1].term)
  /\ n.up =>
       /\ \A k \in DOMAIN n.uents : n.uents[k].index = n.uoff + k - 1
       /\ \A k \in FirstIndex(n, d)..LastIndex(n, d) :
            LET t == LogTerm(n, d, k) tp == LogTerm(n, d, k - 1)
            IN  t >= 0 /\ tp >= 0 /\ t >= tp /\ EntryAt(n, d, k).index = k
C03_WellFormed == (Acting /\ LogChanged) => WellFormedLog(Post, PostD)

\* the log of node j as (first, last, term-at, entry-at): the raftLog view if up, the disk otherwise
LFirst(j) == IF Up(j) THEN FirstIndex(node[j], disk[j]) ELSE StFirst(disk[j])
LLast(j) == IF Up(j) THEN LastIndex(node[j], disk[j]) ELSE StLast(disk[j])
LTerm(j, k) == IF Up(j) THEN LogTerm(node[j], disk[j], k) ELSE StTerm(disk[j], k)
LEntry(j, k) == IF Up(j) THEN EntryAt(node[j], disk[j], k) ELSE DiskEntry(disk[j], k)
Exists(j) == app[j].created

MatchingPair(i, j) ==
  LET lo == Max2(LFirst(i), LFirst(j)) - 1
      hi == Min2(LLast(i), LLast(j))
      same == {k \in lo..hi : LTerm(i, k) >= 0 /\ LTerm(i, k) = LTerm(j, k)}
  IN  same # {} =>
        LET top == CHOOSE k \in same : \A q \in same : q <= k
        IN  \A k \in lo..top :
              /\ LTerm(i, k) = LTerm(j, k)
              /\ (k > lo => Key(LEntry(i, k)) = Key(LEntry(j, k)))
C03_LogMatching == (Acting /\ LogChanged) => \A j \in Node \ {I} : Exists(j) => MatchingPair(I, j)

----------------------------------------------------------------------------
(* C04 Leader completeness                                                    *)
C04_LeaderComplete ==
  (ActUp /\ Post.role = "L") =>
    \A k \in DOMAIN hist.gc :
      hist.gc[k].at < Post.term =>
        \/ k <= BaseIndex(Post, PostD)
        \/ (HasIndex(Post, PostD, k) /\ Key(EntryAt(Post, PostD, k)) = hist.gc[k].key)
C04_NoOverwrite ==
  (BothUp /\ A.name = "Deliver") =>
    \A k \in DOMAIN hist.gc :
      (HasIndex(Pre, PostD, k) /\ Key(EntryAt(Pre, PostD, k)) = hist.gc[k].key)
        => \/ k <= BaseIndex(Post, PostD)
           \/ (HasIndex(Post, PostD, k) /\ Key(EntryAt(Post, PostD, k)) = hist.gc[k].key)

----------------------------------------------------------------------------
(* C05 Durable before visible.  Evaluated on the messages handed to the       *)
(* network in this step (act.sent), against the sender's disk at that instant *)
DiskReaches(d, k) == StLast(d) >= k \/ d.snap.index >= k
VoteDurable(m, d) == d.hs.term > m.term \/ (d.hs.term = m.term /\ d.hs.vote = m.to)
\* d = synced image, live = the storage the node currently reads
AckDurable(m, n, d) ==
  \/ d.hs.term > m.term
  \/ /\ DiskReaches(d, m.index)
     /\ (n.up /\ n.term = m.term) =>
          \A k \in FirstIndex(n, PostD)..Min2(m.index, LastIndex(n, PostD)) : Covers(d, k, EntryAt(n, PostD, k))
C05_VoteDurable ==
  Acting => \A k \in DOMAIN A.sent :
    (A.sent[k].type = "VoteResp" /\ ~A.sent[k].reject /\ A.sent[k].from = I) => VoteDurable(A.sent[k], PostSD)
C05_AckDurable ==
  Acting => \A k \in DOMAIN A.sent :
    (A.sent[k].type = "AppResp" /\ ~A.sent[k].reject /\ A.sent[k].index > 0 /\ A.sent[k].from = I)
      => AckDurable(A.sent[k], Post, PostSD)
\* a leader counts its own entries towards commit only once they are durable
C05_SelfAckDurable ==
  (ActUp /\ Post.role = "L" /\ HasPr(Post, I)) => DiskReaches(PostSD, GetPr(Post, I).match)
\* after a restart everything comes from the disk
C05_RestartFromDisk ==
  (ActUp /\ A.name \in {"Restart", "Boot"}) =>
    /\ ~Post.usnap.has /\ Post.uents = <<>>
    /\ LastIndex(Post, PostD) = StLast(PostD)
    /\ Post.commit = (IF PostD.hs.has THEN PostD.hs.commit ELSE PostD.cidx)

----------------------------------------------------------------------------
(* C06 Commit is quorum-backed, current-term, within the log                  *)
C06_CommitWithinLog == ActUp => Post.commit <= LastIndex(Post, PostD)
C06_LeaderCommitBacked ==
  (BothUp /\ Post.role = "L" /\ Pre.role = "L" /\ Pre.term = Post.term /\ Post.commit > Pre.commit) =>
    LET cidx == Post.commit IN
    /\ HasIndex(Post, PostD, cidx) /\ EntryAt(Post, PostD, cidx).term = Post.term
    /\ LET e == EntryAt(Post, PostD, cidx)
           holders == {v \in Node : Exists(v) /\ Covers(SD(v), cidx, e)}
       IN  StrictMajorityOf(holders, VotersIn(Post.cfg)) /\ StrictMajorityOf(holders, VotersOut(Post.cfg))
C06_FollowerCommit == ActUp => Post.commit <= Max2(hist.maxLeaderCommit, PostD.snap.index)

----------------------------------------------------------------------------
(* C07 HardState monotone                                                     *)
HSMono(old, new) ==
  /\ new.term >= old.term
  /\ new.commit >= old.commit
  /\ (new.term = old.term => (new.vote = old.vote \/ old.vote = 0))
C07_DurableMono == Acting => (PostSD.hs.has \/ ~PreSD.hs.has) /\ (PostSD.hs.has => HSMono(PreSD.hs, PostSD.hs))
C07_ExposedMono ==
  (Acting /\ A.name = "Ready" /\ A.rd.hs.has) => HSMono(hist.hsExpPrev[I], A.rd.hs)
C07_VolatileMono ==
  BothUp => /\ Post.term >= Pre.term /\ Post.commit >= Pre.commit
            /\ (Post.term = Pre.term => (Post.vote = Pre.vote \/ Pre.vote = 0))
C07_RestartFromDisk ==
  (ActUp /\ A.name = "Restart") =>
    /\ Post.term = PostD.hs.term /\ Post.vote = PostD.hs.vote
    /\ Post.commit = (IF PostD.hs.has THEN PostD.hs.commit ELSE PostD.cidx)
C07_NoActBelowStart ==
  ActUp =>
    /\ Post.term >= hist.hsStart[I].term
    /\ \A k \in DOMAIN NewMsgs : NewMsgs[k].term = 0 \/ NewMsgs[k].term >= hist.hsStart[I].term
    /\ \A k \in DOMAIN NewAfter : NewAfter[k].term = 0 \/ NewAfter[k].term >= hist.hsStart[I].term

----------------------------------------------------------------------------
(* C08 Apply stream: evaluated on what each Ready hands out                   *)
IsReady == Acting /\ A.name = "Ready" /\ A.rd.has
C08_Contiguous ==
  (IsReady /\ Len(A.rd.committed) > 0) =>
    /\ A.rd.committed[1].index = (IF A.rd.snap.has THEN A.rd.snap.index + 1 ELSE hist.dlPrev[I].next)
    /\ \A k \in 2..Len(A.rd.committed) : A.rd.committed[k].index = A.rd.committed[k - 1].index + 1
C08_WithinCommit ==
  (IsReady /\ Len(A.rd.committed) > 0) => Last(A.rd.committed).index <= Pre.commit
C08_StableOnlyAsync ==
  (IsReady /\ Cfg(I).async) =>
    \A k \in DOMAIN A.rd.committed :
      LET e == A.rd.committed[k] IN DiskHas(PostD, e.index) /\ Key(DiskEntry(PostD, e.index)) = Key(e)
C08_NotDuringSnap ==
  (IsReady /\ (Pre.usnap.has \/ A.rd.snap.has)) => A.rd.committed = <<>>
C08_SnapshotForward ==
  (IsReady /\ A.rd.snap.has) => A.rd.snap.index + 1 >= hist.dlPrev[I].next \/ hist.dlPrev[I].inc # A.inc

----------------------------------------------------------------------------
(* C09 Snapshot install                                                       *)
IsSnapDeliver == BothUp /\ A.name = "Deliver" /\ A.msg.type = "Snap"
Installed == Post.usnap.has /\ Post.usnap.index = A.msg.snap.index /\ Post.usnap.term = A.msg.snap.term
             /\ ~(Pre.usnap.has /\ Pre.usnap.index = A.msg.snap.index)
C09_NoRollback == IsSnapDeliver => Post.commit >= Pre.commit
C09_ExactBase ==
  (IsSnapDeliver /\ Post.usnap # Pre.usnap) =>
    LET s == A.msg.snap IN
    /\ Post.usnap.has /\ Post.usnap.index = s.index /\ Post.usnap.term = s.term
    /\ BaseIndex(Post, PostD) = s.index /\ BaseTerm(Post, PostD) = s.term
    /\ Post.cfg = s.conf
    /\ LastIndex(Post, PostD) = s.index /\ Post.commit = s.index
C09_IgnoreStale ==
  IsSnapDeliver =>
    LET s == A.msg.snap
        stale == s.index <= Pre.commit
        matches == MatchTerm(Pre, PostD, s.index, s.term)
        \* a message from a newer term first turns the receiver into a follower
        \* of that term; that is not an install
    IN  (stale \/ matches) =>
          /\ Post.usnap = Pre.usnap /\ Post.uents = Pre.uents /\ Post.uoff = Pre.uoff
          \* "at most the commit index is fast-forwarded" (a message of a stale term is ignored altogether)
          /\ Post.commit \in (IF stale THEN {Pre.commit} ELSE {Pre.commit, Max2(Pre.commit, s.index)})
\* accepting (or fast-forwarding over) a snapshot never makes the node consider committed an entry
\* other than the one first committed at that index: no fork
C09_NoFork ==
  IsSnapDeliver =>
    /\ \A k \in FirstIndex(Post, PostD)..Post.commit :
         (k \in DOMAIN hist.gc /\ HasIndex(Post, PostD, k)) => Key(EntryAt(Post, PostD, k)) = hist.gc[k].key
    /\ LET b == BaseIndex(Post, PostD) IN
         (b \in DOMAIN hist.gc) => hist.gc[b].key.term = BaseTerm(Post, PostD)
C09_SnapPrefixCommitted ==
  ActUp => \A k \in DOMAIN NewMsgs :
    NewMsgs[k].type = "Snap" =>
      /\ NewMsgs[k].snap.index <= Post.commit
      /\ NewMsgs[k].snap.index \in DOMAIN hist.gc => hist.gc[NewMsgs[k].snap.index].key.term = NewMsgs[k].snap.term

----------------------------------------------------------------------------
(* C10 Membership changes                                                     *)
CfgAsSets(cfg) == [voters |-> SeqSet(cfg.voters), outgoing |-> SeqSet(cfg.outgoing), learners |-> SeqSet(cfg.learners),
                   learnersNext |-> SeqSet(cfg.learnersNext), autoLeave |-> cfg.autoLeave]
C10_ConfigIsFold ==
  (ActUp /\ hist.cfold.init /\ hist.cfgIdx[I] > 0 /\ hist.cfgIdx[I] <= hist.cfold.upto) =>
    CfgAsSets(Post.cfg) = ConfStateOf(FoldedConf(hist.cfold, hist.cfgIdx[I]))
\* entries the acting leader appended to its own log in this step
OwnNewEntries ==
  IF ~(BothUp /\ Post.role = "L" /\ Pre.role = "L" /\ Pre.term = Post.term) THEN <<>>
  ELSE LET lo == LastIndex(Pre, PreD) + 1 hi == LastIndex(Post, PostD)
       IN  [k \in 1..(hi - lo + 1) |-> EntryAt(Post, PostD, lo + k - 1)]
C10_OnePending ==
  (Acting /\ ~Cfg(I).disableCCValidation) =>
    \A k \in DOMAIN OwnNewEntries :
      OwnNewEntries[k].type # "N" =>
        \A q \in (Post.applied + 1)..(OwnNewEntries[k].index - 1) :
          HasIndex(Post, PostD, q) => EntryAt(Post, PostD, q).type = "N"
C10_NoCampaignUnapplied ==
  (BothUp /\ Post.role \in {"PC", "C"} /\ (Pre.role \notin {"PC", "C"} \/ Post.term > Pre.term)
     /\ ~(A.name = "Deliver" /\ A.msg.term >= Post.term /\ A.msg.type \notin {"PreVoteResp", "TimeoutNow"}))
    => ~HasUnappliedConfChanges(Pre, PostD)
\* the leader (re)tries the automatic leave whenever it has applied something; the attempt is
\* only refused while a leadership transfer is pending
C10_AutoLeave ==
  (BothUp /\ A.name \in {"Advance", "ApplyThread"} /\ Post.role = "L" /\ Pre.role = "L" /\ Post.cfg.autoLeave
     /\ Post.applied > Pre.applied /\ Pre.transferee = 0 /\ Post.transferee = 0 /\ HasPr(Post, I))
    => Post.pendingConf > Post.applied
C10_JointNeedsBoth ==    \* elections and commits in a joint configuration need both majorities (also in C02/C06)
  BecameLeader => StrictMajorityOf(MapGet(hist.votesRecv, <<I, A.inc, Post.term>>, {}), VotersOut(Post.cfg))

----------------------------------------------------------------------------
(* C11 ReadIndex                                                              *)
C11_ReadIndexFresh ==
  IsReady => \A k \in DOMAIN A.rd.readStates :
    LET rs == A.rd.readStates[k] IN
      /\ rs.rid \in DOMAIN hist.reads
      /\ hist.reads[rs.rid].node = I
      /\ rs.index >= hist.reads[rs.rid].maxc
\* a response is produced only by a leader that committed in its own term
NewReadStates == IF ~BothUp \/ A.name = "Ready" THEN <<>> ELSE NewSeq(Pre.readStates, Post.readStates)
OwnTermCommitted(n, d) == n.role = "L" /\ ZeroTerm(LogTerm(n, d, n.commit)) = n.term
\* the commit index may advance in the very step that then releases postponed reads, so the
\* condition must hold before or after the step
ServedOK == OwnTermCommitted(Pre, PostD) \/ OwnTermCommitted(Post, PostD)
C11_ServedByRealLeader ==
  BothUp =>
    /\ \A k \in DOMAIN NewMsgs : NewMsgs[k].type = "ReadIndexResp" => ServedOK
    /\ (Len(NewReadStates) > 0 /\ ~(A.name = "Deliver" /\ A.msg.type = "ReadIndexResp")) => ServedOK
    \* unless sole voter: confirmed only after a quorum acknowledged a heartbeat sent after the request
    /\ (A.name = "Deliver" /\ A.msg.type = "HeartbeatResp" /\ Pre.role = "L" /\ Post.roConf > Pre.roConf) =>
         LET acked == {v \in Node : \E q \in DOMAIN Post.roAcks : Post.roAcks[q].id = v /\ Post.roAcks[q].pos >= Post.roConf}
         IN  StrictMajorityOf(acked, VotersIn(Post.cfg)) /\ StrictMajorityOf(acked, VotersOut(Post.cfg))

----------------------------------------------------------------------------
(* C14 No assertion fires                                                     *)
C14_NoPanic == A.panic = ""

----------------------------------------------------------------------------
(* C15 Convergence after faults stop.  The harness appends a fault-free suffix  *)
(* (all members of the committed configuration running, removed nodes stopped,  *)
(* every message delivered, snapshot outcomes reported, K rounds of ticks) and  *)
(* emits "Stabilized" events; the formula is evaluated on that final state.     *)
LeadersUp == {i \in Node : Up(i) /\ node[i].role = "L"}
C15_Converged ==
  (A.name = "Stabilized" /\ A.ok /\ ~hist.cfold.twoVoterShrink) =>
    /\ Cardinality(LeadersUp) = 1
    /\ LET l == CHOOSE i \in LeadersUp : TRUE
           n == node[l]
           last == LastIndex(n, disk[l])
       IN  /\ n.commit = last /\ n.applied = last
           /\ ~n.cfg.autoLeave /\ n.transferee = 0
           /\ \A j \in Members(n.cfg) :
                 /\ j \in Node /\ Up(j)
                 /\ node[j].term = n.term
                 /\ LastIndex(node[j], disk[j]) = last /\ LastTerm(node[j], disk[j]) = LastTerm(n, disk[l])
                 /\ node[j].commit = last /\ node[j].applied = last
                 /\ node[j].uents = <<>> /\ ~node[j].usnap.has
                 /\ app[j].phase = "idle" /\ app[j].appendQ = <<>> /\ app[j].applyQ = <<>> /\ app[j].localQ = <<>>
                 /\ node[j].cfg = n.cfg
           /\ \A k \in DOMAIN n.prs :
                 n.prs[k].id # l => (n.prs[k].state = "Replicate" /\ n.prs[k].match = last /\ ~n.prs[k].paused)

----------------------------------------------------------------------------
(* C16 Flow control and size limits                                           *)
C16_MsgSizeBound ==
  ActUp => \A k \in DOMAIN NewMsgs :
    NewMsgs[k].type = "App" => (Len(NewMsgs[k].entries) <= 1 \/ SumBy(NewMsgs[k].entries, "sz") <= MaxMsgSize(Cfg(I)))
C16_InflightBound ==
  ActUp => \A f \in Node :
    LET o == MapGet(hist.outst, <<I, f>>, <<>>) IN
      /\ Len(o) <= Cfg(I).maxInflightMsgs
      /\ Len(o) > 1 => SumBy(SubSeq(o, 1, Len(o) - 1), "bytes") < MaxInflBytes(Cfg(I))
C16_NoAppendDuringSnapshot ==
  (BothUp /\ Post.role = "L") => \A k \in DOMAIN NewMsgs :
    (NewMsgs[k].type = "App" /\ HasPr(Post, NewMsgs[k].to) /\ GetPr(Post, NewMsgs[k].to).state = "Snapshot")
      => \E q \in DOMAIN NewMsgs : q > k /\ NewMsgs[q].type = "Snap" /\ NewMsgs[q].to = NewMsgs[k].to
\* payload bytes of the leader's own-term entries that are not yet applied
OwnUnappliedBytes(n, d) ==
  LET lo == Max2(n.applied + 1, FirstIndex(n, d)) hi == LastIndex(n, d)
  IN  PayloadBytes(SelectSeq([k \in 1..(IF hi >= lo THEN hi - lo + 1 ELSE 0) |-> EntryAt(n, d, lo + k - 1)],
                             LAMBDA e : e.term = n.term))
AcceptStep == BothUp /\ Post.role = "L" /\ Pre.role = "L" /\ Pre.term = Post.term
              /\ LastIndex(Post, PostD) > LastIndex(Pre, PostD)
              /\ (IsProposeAct \/ (A.name = "Deliver" /\ A.msg.type = "Prop"))
AcceptedBytes == LET lo == LastIndex(Pre, PostD) + 1 hi == LastIndex(Post, PostD)
                 IN  PayloadBytes([k \in 1..(hi - lo + 1) |-> EntryAt(Post, PostD, lo + k - 1)])
\* a leader accepts at most MaxUncommittedEntriesSize bytes of (unapplied) proposals plus one proposal
C16_UncommittedBound ==
  (AcceptStep /\ hist.uncAcc[I].valid) =>
    \* (an empty proposal is never refused and changes nothing)
    LET u == OwnUnappliedBytes(Post, PostD) IN u <= MaxUncommitted(Cfg(I)) \/ u = AcceptedBytes \/ AcceptedBytes = 0
\* ... and a proposal made at the leader is reported dropped for size exactly when something is already
\* outstanding and it would exceed the limit (empty proposals are never dropped for size)
C16_DropIffOver ==
  (BothUp /\ A.name = "Propose" /\ Pre.role = "L" /\ Post.role = "L" /\ hist.uncAcc[I].valid
     /\ Pre.transferee = 0 /\ HasPr(Pre, I)) =>
    LET before == OwnUnappliedBytes(Pre, PostD)
        over == before > 0 /\ A.psz > 0 /\ before + A.psz > MaxUncommitted(Cfg(I))
    IN  (A.ret = "dropped") <=> over

----------------------------------------------------------------------------
(* C17 PreVote / CheckQuorum                                                  *)
CampaignStep == BothUp /\ Post.term = Pre.term + 1 /\ Post.vote = I /\ Post.role \in {"C", "L"}
C17_PreVoteBeforeTerm ==
  (CampaignStep /\ Cfg(I).preVote /\ ~(A.name = "Deliver" /\ A.msg.type = "TimeoutNow")) =>
    LET got == MapGet(hist.preRecv, <<I, A.inc, Post.term>>, {})
    IN  StrictMajorityOf(got, VotersIn(Post.cfg)) /\ StrictMajorityOf(got, VotersOut(Post.cfg))
C17_PreVoteNoStateChange ==
  (BothUp /\ A.name = "Deliver" /\ A.msg.type = "PreVote") => (Post.term = Pre.term /\ Post.vote = Pre.vote)
C17_LeaseHolds ==
  (BothUp /\ A.name = "Deliver" /\ A.msg.type \in {"Vote", "PreVote"} /\ A.msg.ctxKind # "transfer"
     /\ Cfg(I).checkQuorum /\ Pre.lead # None /\ Pre.ee < Cfg(I).electionTick) =>
    /\ Post.term = Pre.term /\ Post.vote = Pre.vote
    /\ \A k \in DOMAIN NewAfter :
         (NewAfter[k].type \in {"VoteResp", "PreVoteResp"} /\ ~NewAfter[k].reject)
           => (NewAfter[k].term <= Pre.term /\ NewAfter[k].to = Pre.vote)
\* the same, with "heard from within the last election timeout" measured by the specification (ticks since
\* the last append, heartbeat or snapshot of the followed leader) instead of by raft's own counter
C17_LeaseFromContact ==
  (BothUp /\ A.name = "Deliver" /\ A.msg.type \in {"Vote", "PreVote"} /\ A.msg.ctxKind # "transfer"
     /\ Cfg(I).checkQuorum /\ Pre.lead # None /\ Pre.role = "F" /\ hist.sinceLead[I] < Cfg(I).electionTick) =>
    /\ Post.term = Pre.term /\ Post.vote = Pre.vote
    /\ \A k \in DOMAIN NewAfter :
         (NewAfter[k].type \in {"VoteResp", "PreVoteResp"} /\ ~NewAfter[k].reject)
           => (NewAfter[k].term <= Pre.term /\ NewAfter[k].to = Pre.vote)
\* ... nor does such a follower raise its term by campaigning on a tick
C17_NoCampaignInLease ==
  (BothUp /\ A.name = "Tick" /\ Cfg(I).checkQuorum /\ Pre.lead # None /\ Pre.role = "F"
     /\ hist.sinceLead[I] < Cfg(I).electionTick) => (Post.term = Pre.term /\ Post.role = "F")
\* a leader that heard from no quorum for two election timeouts of its own ticks is gone
C17_CheckQuorumStepDown ==
  (BothUp /\ A.name = "Tick" /\ Cfg(I).checkQuorum /\ Post.role = "L" /\ Pre.role = "L" /\ Pre.term = Post.term
     /\ hist.leadAge[I] > 2 * Cfg(I).electionTick) =>
    LET recent == {v \in Node : v = I \/ hist.heard[I][v] <= 2 * Cfg(I).electionTick}
    IN  StrictMajorityOf(recent, VotersIn(Post.cfg)) /\ StrictMajorityOf(recent, VotersOut(Post.cfg))

----------------------------------------------------------------------------
(* C19 Determinism: the re-execution produced byte-identical events           *)
C19_SameOutputs == A.det

----------------------------------------------------------------------------
(* C20 Proposal integrity                                                     *)
AllLogEntries(n, d) == IF n.up THEN d.ents \o n.uents ELSE d.ents
C20_NothingInvented ==
  (Acting /\ LogChanged) => \A k \in DOMAIN AllLogEntries(Post, PostD) :
    LET e == AllLogEntries(Post, PostD)[k] IN
      /\ e.pid >= 0
      /\ e.pid > 0 => (e.pid \in DOMAIN hist.props /\ hist.props[e.pid].ret # "dropped"
                       /\ hist.props[e.pid].cc = (e.type # "N") /\ hist.props[e.pid].psz = e.psz)
      /\ e.pid = 0 => (e.psz = 0 /\ (e.type = "N" \/ (e.type = "CC2" /\ e.cc.changes = <<>>)))
CountPid(ents, p) == Cardinality({k \in DOMAIN ents : ents[k].pid = p})
C20_AtMostOncePerDelivery ==
  (ActUp /\ LogChanged) => LET ents == LogEntries(Post, PostD) IN
    \A k \in DOMAIN ents :
      ents[k].pid > 0 =>
        CountPid(ents, ents[k].pid) <=
          (IF ents[k].pid \in DOMAIN hist.props /\ hist.props[ents[k].pid].atLeader /\ hist.props[ents[k].pid].ret = "ok" THEN 1 ELSE 0)
          + MapGet(hist.propDeliv, ents[k].pid, 0)
\* a proposal made at the leader itself appears exactly once, entry by entry, in order; a conf-change
\* entry may have been neutralised into an empty normal entry; raft may add entries of its own after it
C20_ProposedAtLeaderOnce ==
  (BothUp /\ IsProposeAct /\ Pre.role = "L") =>
    LET new == OwnNewEntries IN
      IF A.ret = "ok"
      THEN /\ Len(new) >= Len(A.ents)
           /\ \A k \in DOMAIN A.ents :
                \/ (new[k].pid = A.ents[k].pid /\ new[k].type = A.ents[k].type /\ new[k].psz = A.ents[k].psz /\ new[k].cc = A.ents[k].cc)
                \/ (A.ents[k].type # "N" /\ new[k].type = "N" /\ new[k].pid = 0 /\ new[k].psz = 0)
           /\ \A k \in (Len(A.ents) + 1)..Len(new) : new[k].pid = 0
      ELSE Len(new) = 0
\* messages already queued for sending are never altered (a forwarded proposal keeps its payload)
C20_QueuedIntact ==
  (BothUp /\ A.name # "Ready") =>
    /\ Len(Post.msgs) >= Len(Pre.msgs) /\ SubSeq(Post.msgs, 1, Len(Pre.msgs)) = Pre.msgs
    /\ (A.name \notin {"Advance", "AppendThread", "LocalResp"} =>
          (Len(Post.after) >= Len(Pre.after) /\ SubSeq(Post.after, 1, Len(Pre.after)) = Pre.after))
\* a proposal forwarded by a follower travels as one MsgProp with exactly the proposed entries
C20_ForwardIntact ==
  (BothUp /\ IsProposeAct /\ Pre.role # "L" /\ A.ret = "ok") =>
    LET nm == NewMsgs IN
      /\ Len(nm) = 1 /\ nm[1].type = "Prop" /\ nm[1].to = Pre.lead
      /\ Len(nm[1].entries) = Len(A.ents)
      /\ \A k \in DOMAIN A.ents : Key(nm[1].entries[k]) = Key(A.ents[k])
C20_DroppedMeansDropped ==
  (BothUp /\ IsProposeAct /\ A.ret = "dropped") =>
    /\ LastIndex(Post, PostD) = LastIndex(Pre, PostD)
    /\ Post.msgs = Pre.msgs

----------------------------------------------------------------------------
AllInvariants ==
  /\ C01_CommittedStable /\ C01_AppliedAgree /\ C01_ApplyAgree
  /\ C02_OneLeaderPerTerm /\ C02_OneVotePerTerm /\ C02_VoteOnlyUpToDate /\ C02_LeaderHasQuorum /\ C02_RestartKeepsVote
  /\ C03_WellFormed /\ C03_LogMatching
  /\ C04_LeaderComplete /\ C04_NoOverwrite
  /\ C05_VoteDurable /\ C05_AckDurable /\ C05_SelfAckDurable /\ C05_RestartFromDisk
  /\ C06_CommitWithinLog /\ C06_LeaderCommitBacked /\ C06_FollowerCommit
  /\ C07_DurableMono /\ C07_ExposedMono /\ C07_VolatileMono /\ C07_RestartFromDisk /\ C07_NoActBelowStart
  /\ C08_Contiguous /\ C08_WithinCommit /\ C08_StableOnlyAsync /\ C08_NotDuringSnap /\ C08_SnapshotForward
  /\ C09_NoRollback /\ C09_ExactBase /\ C09_IgnoreStale /\ C09_NoFork /\ C09_SnapPrefixCommitted
  /\ C10_ConfigIsFold /\ C10_OnePending /\ C10_NoCampaignUnapplied /\ C10_AutoLeave
  /\ C11_ReadIndexFresh /\ C11_ServedByRealLeader
  /\ C14_NoPanic
  /\ C15_Converged
  /\ C16_MsgSizeBound /\ C16_InflightBound /\ C16_NoAppendDuringSnapshot /\ C16_UncommittedBound /\ C16_DropIffOver
  /\ C17_PreVoteBeforeTerm /\ C17_PreVoteNoStateChange /\ C17_LeaseHolds /\ C17_LeaseFromContact /\ C17_NoCampaignInLease /\ C17_CheckQuorumStepDown
  /\ C19_SameOutputs
  /\ C20_NothingInvented /\ C20_AtMostOncePerDelivery /\ C20_ProposedAtLeaderOnce /\ C20_QueuedIntact /\ C20_ForwardIntact /\ C20_DroppedMeansDropped
=============================================================================
