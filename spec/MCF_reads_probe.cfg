SPECIFICATION Spec
CONSTANTS
  Node = {1, 2}
  Weaken = {}
  MCCl <- ClReads
  PszSet <- PszF
  CCSet <- NoCCsF
  Actors <- ActorsReads
  Bound <- BoundReads
INVARIANT Probe_reads
CONSTRAINT StateBound
VIEW View
CHECK_DEADLOCK FALSE
