------------------------------ MODULE LogStore ------------------------------
(* The abstract log of property C18: a list of entries behind a compacted     *)
(* prefix, with the DECLARATIVE answers to the queries of the Storage         *)
(* interface and of the raftLog view (first/last index, term-at, entry range  *)
(* under a size limit, ErrCompacted / ErrUnavailable exactly outside the      *)
(* available range).                                                          *)
EXTENDS Integers, Sequences

\* an abstract log: base = compaction point (index, term); ents[k] is the entry at index base.index + k
\* entries are [term, sz]
AFirst(l) == l.bidx + 1
ALast(l) == l.bidx + Len(l.ents)
AEntry(l, i) == l.ents[i - l.bidx]

\* term-at: valid for bidx <= i <= last; "compacted" below, "unavailable" above
ATerm(l, i) ==
  IF i < l.bidx THEN [err |-> "compacted", t |-> 0]
  ELSE IF i > ALast(l) THEN [err |-> "unavailable", t |-> 0]
  ELSE IF i = l.bidx THEN [err |-> "", t |-> l.bterm]
  ELSE [err |-> "", t |-> AEntry(l, i).term]

\* the longest prefix of s whose total size is <= max, but never empty
RECURSIVE PrefixLen(_, _, _, _)
PrefixLen(s, max, k, acc) ==
  IF k > Len(s) THEN Len(s)
  ELSE IF acc + s[k].sz > max THEN k - 1
  ELSE PrefixLen(s, max, k + 1, acc + s[k].sz)
SizePrefix(s, max) == IF s = <<>> THEN s ELSE SubSeq(s, 1, PrefixLen(s, max, 2, s[1].sz))

\* entry range [lo, hi) under a size limit, for first <= lo <= hi <= last + 1
ARange(l, lo, hi, max) ==
  IF lo < AFirst(l) THEN [err |-> "compacted", ents |-> <<>>]
  ELSE IF hi > ALast(l) + 1 THEN [err |-> "unavailable", ents |-> <<>>]
  ELSE [err |-> "", ents |-> SizePrefix(SubSeq(l.ents, lo - l.bidx, hi - 1 - l.bidx), max)]

\* overwrite-from-index: keep everything before `from`, then the new entries
AOverwrite(l, from, new) == [l EXCEPT !.ents = SubSeq(l.ents, 1, from - 1 - l.bidx) \o new]
ACompact(l, k) == [bidx |-> k, bterm |-> ATerm(l, k).t, ents |-> SubSeq(l.ents, k - l.bidx + 1, Len(l.ents))]
ARestore(i, t) == [bidx |-> i, bterm |-> t, ents |-> <<>>]
=============================================================================
