------------------------------ MODULE MCQuorum ------------------------------
(* C12 engine: the complete bounded input space of the quorum arithmetic as   *)
(* the INITIAL STATES of a TLC model; each state carries the value the        *)
(* DECLARATIVE definitions of Quorum.tla assign to it (variable `want`).      *)
(* TLC dumps the state space (-dump) and the harness evaluates the real       *)
(* quorum.MajorityConfig / quorum.JointConfig on every state: one             *)
(* implementation test per state.                                             *)
EXTENDS Quorum, Sequences, TLC

CONSTANTS BigSizes,                     \* e.g. {7, 8} (quick) or {7, 8, 9} (thorough)
          IdxVals                       \* acknowledged-index values, -1 = missing

IdxValsQuick == {-1, 0, 1, 2}
IdxValsThorough == {-1, 0, 1, 2, 3}
U == 1..4                               \* small universe: all sets, all joint pairs
VoteVals == {-1, 0, 1}                  \* -1 missing, 0 no, 1 yes

Partial(vec, dom) == [v \in {x \in dom : vec[x] # -1} |-> vec[v]]
VotesOf(vec, dom) == [v \in {x \in dom : vec[x] # -1} |-> vec[v] = 1]

VARIABLES kind, c0, c1, vec, want
vars == <<kind, c0, c1, vec, want>>

InitSmallCommit ==
  /\ kind = "commit" /\ c0 \in SUBSET U /\ c1 \in SUBSET U /\ vec \in [U -> IdxVals]
  /\ want = JointCommitted(c0, c1, Partial(vec, U))
InitSmallVote ==
  /\ kind = "vote" /\ c0 \in SUBSET U /\ c1 \in SUBSET U /\ vec \in [U -> VoteVals]
  /\ want = JointVote(c0, c1, VotesOf(vec, U))
\* sizes 7, 8, 9 (8+ leaves the on-stack fast path): a 3-level index lattice, all vote vectors
InitBigCommit ==
  \E n \in BigSizes :
    /\ kind = "commit" /\ c0 = 1..n /\ c1 = {} /\ vec \in [1..n -> {-1, 1, 2}]
    /\ want = JointCommitted(c0, c1, Partial(vec, 1..n))
InitBigVote ==
  \E n \in BigSizes :
    /\ kind = "vote" /\ c0 = 1..n /\ c1 = {} /\ vec \in [1..n -> VoteVals]
    /\ want = JointVote(c0, c1, VotesOf(vec, 1..n))

\* joint configurations whose halves both exceed the fast-path size: incoming 1..n, outgoing
\* {1..4} + five ids outside the incoming set; ids 5..n share one value (symmetry of the middle)
BigVec(n, vals) ==
  { [x \in 1..(n + 5) |-> IF x <= 4 THEN h[x] ELSE IF x <= n THEN m ELSE t[x - n]]
    : h \in [1..4 -> vals], m \in vals, t \in [1..5 -> vals] }
InitBigJointCommit ==
  \E n \in BigSizes :
    /\ kind = "commit" /\ c0 = 1..n /\ c1 = (1..4) \cup ((n + 1)..(n + 5)) /\ vec \in BigVec(n, {-1, 1, 2})
    /\ want = JointCommitted(c0, c1, Partial(vec, 1..(n + 5)))
InitBigJointVote ==
  \E n \in BigSizes :
    /\ kind = "vote" /\ c0 = 1..n /\ c1 = (1..4) \cup ((n + 1)..(n + 5)) /\ vec \in BigVec(n, VoteVals)
    /\ want = JointVote(c0, c1, VotesOf(vec, 1..(n + 5)))

Init == InitSmallCommit \/ InitSmallVote \/ InitBigCommit \/ InitBigVote \/ InitBigJointCommit \/ InitBigJointVote
Next == UNCHANGED vars

\* sanity invariants of the declarative definitions themselves
TypeOK == (kind = "commit" => want \in Nat) /\ (kind = "vote" => want \in {"Won", "Lost", "Pending"})
JointIsMin == kind = "commit" =>
  want = (LET a == MajorityCommitted(c0, Partial(vec, DOMAIN vec)) b == MajorityCommitted(c1, Partial(vec, DOMAIN vec))
          IN IF a < b THEN a ELSE b)
=============================================================================
