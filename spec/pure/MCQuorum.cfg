INIT Init
NEXT Next
CONSTANT BigSizes = {7, 8}
CONSTANT IdxVals <- IdxValsQuick
INVARIANT TypeOK
INVARIANT JointIsMin
CHECK_DEADLOCK FALSE
