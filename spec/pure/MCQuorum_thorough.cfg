INIT Init
NEXT Next
CONSTANT BigSizes = {7, 8, 9}
CONSTANT IdxVals <- IdxValsThorough
INVARIANT TypeOK
INVARIANT JointIsMin
CHECK_DEADLOCK FALSE
