INIT Init
NEXT Next
CONSTANTS
  IdSet = {1, 2, 3}
  MaxLen = 3
INVARIANT Inv_ConfInv
INVARIANT Inv_RejectedUntouched
INVARIANT Inv_AtLeastOneVoter
INVARIANT Inv_SimpleAtMostOne
INVARIANT Inv_RestoreRoundTrip
CHECK_DEADLOCK FALSE
