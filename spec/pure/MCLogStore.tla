----------------------------- MODULE MCLogStore -----------------------------
(* C18 engine: all operation sequences (up to a length bound, over small      *)
(* index / term domains) on MemoryStorage + the raftLog view: append,         *)
(* follower overwrite-from-index, commit, handing unstable state to the       *)
(* storage writer, the (delayed) storage write itself, persistence            *)
(* acknowledgements in any order (incl. stale ones, subject to the term/epoch *)
(* guard raft applies), snapshot restore, apply, compaction, snapshot         *)
(* creation.  Each state carries the operation sequence and the ABSTRACT log  *)
(* (`view`) and abstract storage (`stor`) that must result; the harness       *)
(* replays the sequence on the real code and compares every query answer      *)
(* with the abstract ones.                                                    *)
EXTENDS LogStore, FiniteSets, TLC

CONSTANTS MaxIdx, MaxTerm, MaxLen, MaxWrites

Terms == 1..MaxTerm
SzClasses == {1, 2}

VARIABLES ops, view, stor, snapIdx, commit, applied, offip, usnap, writes, acks, epoch
vars == <<ops, view, stor, snapIdx, commit, applied, offip, usnap, writes, acks, epoch>>

Op(name, i, t, n, sz) == [op |-> name, i |-> i, t |-> t, n |-> n, sz |-> sz, pt |-> 0, c |-> 0]
Do(o) == ops' = Append(ops, o)

NoUSnap == [has |-> FALSE, ip |-> FALSE, idx |-> 0, term |-> 0]
LastTerm == ATerm(view, ALast(view)).t

Init ==
  /\ ops = <<>>
  \* two entries (a small and a big one) are already stable, nothing is committed beyond the base
  /\ view = [bidx |-> 1, bterm |-> 1, ents |-> <<[term |-> 1, sz |-> 1], [term |-> 1, sz |-> 2]>>]
  /\ stor = [bidx |-> 1, bterm |-> 1, ents |-> <<[term |-> 1, sz |-> 1], [term |-> 1, sz |-> 2]>>]
  /\ snapIdx = 1 /\ commit = 1 /\ applied = 1 /\ offip = 4
  /\ usnap = NoUSnap /\ writes = <<>> /\ acks = {} /\ epoch = 1

\* leader append of one entry
OpAppend ==
  \E t \in {LastTerm, LastTerm + 1} \cap Terms, sz \in SzClasses :
    /\ ALast(view) < MaxIdx /\ t >= LastTerm
    /\ view' = [view EXCEPT !.ents = Append(@, [term |-> t, sz |-> sz])]
    /\ Do(Op("append", ALast(view) + 1, t, 1, sz))
    /\ UNCHANGED <<stor, snapIdx, commit, applied, offip, usnap, writes, acks, epoch>>

\* follower append (maybeAppend) of n entries of term t after prev = from - 1
OpFollowerAppend ==
  \E from \in (commit + 1)..(ALast(view) + 1), t \in Terms, n \in 1..2, sz \in SzClasses :
    /\ from + n - 1 <= MaxIdx
    /\ (n = 2 => sz = 1)
    /\ from - 1 >= view.bidx /\ t >= ATerm(view, from - 1).t
    /\ LET new == [k \in 1..n |-> [term |-> t, sz |-> sz]]
           conflicts == {k \in from..(from + n - 1) : k > ALast(view) \/ AEntry(view, k).term # t}
       IN  /\ conflicts # {}
           /\ LET ci == CHOOSE k \in conflicts : \A q \in conflicts : k <= q
              IN  /\ view' = AOverwrite(view, ci, SubSeq(new, ci - from + 1, n))
                  /\ epoch' = IF ci <= ALast(view) THEN epoch + 1 ELSE epoch
                  /\ offip' = IF ci < offip THEN ci ELSE offip
    /\ Do([Op("fapp", from, t, n, sz) EXCEPT !.pt = ATerm(view, from - 1).t, !.c = commit])
    /\ UNCHANGED <<stor, snapIdx, commit, applied, usnap, writes, acks>>

OpCommit ==
  \E c \in (commit + 1)..ALast(view) :
    /\ commit' = c /\ Do(Op("commit", c, 0, 0, 0))
    /\ UNCHANGED <<view, stor, snapIdx, applied, offip, usnap, writes, acks, epoch>>

\* Ready/accept: the not-yet-in-progress unstable entries and snapshot go to the storage writer
OpAccept ==
  /\ Len(writes) < MaxWrites
  /\ (offip <= ALast(view) \/ (usnap.has /\ ~usnap.ip))
  /\ LET ents == SubSeq(view.ents, offip - view.bidx, Len(view.ents))
         w == [from |-> offip, ents |-> ents,
               snap |-> IF usnap.has /\ ~usnap.ip THEN usnap ELSE NoUSnap,
               ackIdx |-> ALast(view), ackTerm |-> LastTerm, epoch |-> epoch]
     IN  writes' = Append(writes, w)
  /\ offip' = ALast(view) + 1
  /\ usnap' = IF usnap.has THEN [usnap EXCEPT !.ip = TRUE] ELSE usnap
  /\ Do(Op("accept", 0, 0, 0, 0))
  /\ UNCHANGED <<view, stor, snapIdx, commit, applied, acks, epoch>>

\* the storage writer performs the oldest queued write; its acknowledgement becomes deliverable
OpPersist ==
  /\ writes # <<>>
  /\ LET w == Head(writes)
         s1 == IF w.snap.has /\ w.snap.idx > snapIdx THEN ARestore(w.snap.idx, w.snap.term) ELSE stor
         \* MemoryStorage.Append: entries below the first index are dropped, then truncate + append
         es == IF w.ents = <<>> THEN <<>>
               ELSE IF w.from + Len(w.ents) - 1 < AFirst(s1) THEN <<>>
               ELSE IF w.from < AFirst(s1) THEN SubSeq(w.ents, AFirst(s1) - w.from + 1, Len(w.ents)) ELSE w.ents
         f == IF w.from < AFirst(s1) THEN AFirst(s1) ELSE w.from
     IN  /\ (es # <<>> => f <= ALast(s1) + 1)        \* the writes of one node are contiguous
         /\ stor' = IF es = <<>> THEN s1 ELSE AOverwrite(s1, f, es)
         /\ snapIdx' = IF w.snap.has /\ w.snap.idx > snapIdx THEN w.snap.idx ELSE snapIdx
         /\ acks' = acks \cup {[idx |-> w.ackIdx, term |-> w.ackTerm, epoch |-> w.epoch,
                                 snap |-> IF w.snap.has THEN w.snap.idx ELSE 0, seq |-> Len(ops)]}
  /\ writes' = Tail(writes)
  /\ Do(Op("persist", 0, 0, 0, 0))
  /\ UNCHANGED <<view, commit, applied, offip, usnap, epoch>>

\* an acknowledgement is delivered (any order); stale ones are filtered by the term/epoch guard
OpAck ==
  \E a \in acks :
    /\ acks' = acks \ {a}
    /\ usnap' = IF a.snap # 0 /\ usnap.has /\ usnap.idx = a.snap THEN NoUSnap ELSE usnap
    /\ applied' = IF a.snap # 0 /\ a.snap > applied THEN a.snap ELSE applied
    /\ Do(Op("ack", a.idx, a.term, IF a.epoch = epoch THEN 1 ELSE 0, a.snap))
    /\ UNCHANGED <<view, stor, snapIdx, commit, offip, writes, epoch>>

\* snapshot restore (an index beyond commit that does not match the log)
OpRestore ==
  \E i \in (commit + 1)..MaxIdx, t \in Terms :
    /\ ~(i <= ALast(view) /\ ATerm(view, i).t = t)
    /\ t >= ATerm(view, commit).t /\ t <= ATerm(view, commit).t + 1
    /\ view' = ARestore(i, t) /\ commit' = i /\ offip' = i + 1
    /\ usnap' = [has |-> TRUE, ip |-> FALSE, idx |-> i, term |-> t]
    /\ Do(Op("restore", i, t, 0, 0))
    /\ UNCHANGED <<stor, snapIdx, applied, writes, acks, epoch>>

OpApplied ==
  \E a \in (applied + 1)..commit :
    /\ ~usnap.has /\ a <= ALast(stor) /\ a >= AFirst(stor) - 1
    \* the application applies (and later snapshots/compacts) only what its storage really holds
    /\ \A k \in AFirst(stor)..a : k <= ALast(view) /\ k > view.bidx => AEntry(stor, k) = AEntry(view, k)
    /\ applied' = a /\ Do(Op("applied", a, 0, 0, 0))
    /\ UNCHANGED <<view, stor, snapIdx, commit, offip, usnap, writes, acks, epoch>>

OpSnapshot ==
  \E k \in (snapIdx + 1)..applied :
    /\ k <= ALast(stor) /\ k >= AFirst(stor)
    /\ snapIdx' = k /\ Do(Op("snap", k, 0, 0, 0))
    /\ UNCHANGED <<view, stor, commit, applied, offip, usnap, writes, acks, epoch>>

\* compaction up to the snapshot index; the view's base follows the storage once nothing before it is unstable
OpCompact ==
  \E k \in (stor.bidx + 1)..snapIdx :
    /\ k <= ALast(stor) /\ ~usnap.has
    /\ k <= ALast(view) /\ k >= view.bidx
    /\ stor' = ACompact(stor, k)
    /\ view' = ACompact(view, k)
    /\ Do(Op("compact", k, 0, 0, 0))
    /\ UNCHANGED <<snapIdx, commit, applied, offip, usnap, writes, acks, epoch>>

Next ==
  /\ Len(ops) < MaxLen
  /\ (OpAppend \/ OpFollowerAppend \/ OpCommit \/ OpAccept \/ OpPersist \/ OpAck \/ OpRestore \/ OpApplied
      \/ OpSnapshot \/ OpCompact)

\* sanity of the abstract model itself
Inv_Terms == \A k \in 1..Len(view.ents) : view.ents[k].term >= (IF k = 1 THEN view.bterm ELSE view.ents[k - 1].term)
Inv_Order == applied <= commit /\ commit <= ALast(view) /\ view.bidx <= commit
=============================================================================
