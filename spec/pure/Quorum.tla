------------------------------- MODULE Quorum -------------------------------
(* Declarative majority / joint-quorum arithmetic (property C12).            *)
(* These definitions ARE the property: "largest index acknowledged by a      *)
(* strict majority", "Won exactly when a strict majority of every set said   *)
(* yes".  They are deliberately not a transcription of quorum/majority.go    *)
(* (which sorts and picks position n-(n/2+1)).                               *)
EXTENDS Integers, FiniteSets

Infinity == 1073741824        \* stands for math.MaxUint64 ("no constraint")

\* acked : function from (a superset of some) ids to Nat; ids outside DOMAIN
\* acked are "missing" and count as 0.
AckOf(acked, v) == IF v \in DOMAIN acked THEN acked[v] ELSE 0

IsStrictMajority(q, c) == 2 * Cardinality(q) > Cardinality(c)

\* Largest k acknowledged by a strict majority of c.  0 always qualifies.
MajorityCommitted(c, acked) ==
  IF c = {} THEN Infinity
  ELSE LET cand == {0} \cup {AckOf(acked, v) : v \in c}
           ok(k) == IsStrictMajority({v \in c : AckOf(acked, v) >= k}, c)
       IN  CHOOSE k \in cand : ok(k) /\ \A k2 \in cand : ok(k2) => k2 <= k

JointCommitted(c0, c1, acked) ==
  LET a == MajorityCommitted(c0, acked)
      b == MajorityCommitted(c1, acked)
  IN  IF a < b THEN a ELSE b

\* votes : function from ids to BOOLEAN (ids outside the domain: missing).
MajorityVote(c, votes) ==
  IF c = {} THEN "Won"
  ELSE LET yes     == {v \in c : v \in DOMAIN votes /\ votes[v]}
           missing == {v \in c : v \notin DOMAIN votes}
       IN  IF IsStrictMajority(yes, c) THEN "Won"
           ELSE IF IsStrictMajority(yes \cup missing, c) THEN "Pending"
           ELSE "Lost"

JointVote(c0, c1, votes) ==
  LET r0 == MajorityVote(c0, votes)
      r1 == MajorityVote(c1, votes)
  IN  IF r0 = "Won" /\ r1 = "Won" THEN "Won"
      ELSE IF r0 = "Lost" \/ r1 = "Lost" THEN "Lost"
      ELSE "Pending"
=============================================================================
