---------------------------- MODULE MCConfChange ----------------------------
(* C13 engine: the reachable graph of configurations over a bounded id         *)
(* universe under every ConfChangeV2 of bounded length.  A state is one EDGE   *)
(* of that graph (from, op) -> (ok, cur); TLC checks the algebra's invariants  *)
(* on every state and dumps the states; the harness applies the real           *)
(* confchange.Changer / confchange.Restore to every edge.                      *)
EXTENDS ConfChange, TLC

CONSTANTS IdSet,      \* e.g. {1, 2, 3}
          MaxLen      \* max number of single changes per ConfChangeV2

Ids == IdSet \cup {0}
Single == [t : {"v", "l", "r", "u"}, id : Ids]
Seqs == UNION {[1..n -> Single] : n \in 0..MaxLen}
Ops == [trans : {"auto", "implicit", "explicit"}, changes : Seqs]

VARIABLES cur, from, op, ok
vars == <<cur, from, op, ok>>

NoOp == [trans |-> "none", changes |-> <<>>]     \* marks a configuration state (not an edge)

Init == cur = EmptyCfg /\ from = EmptyCfg /\ op = NoOp /\ ok = TRUE
\* a "configuration state" (from = cur, no-op) expands into one edge state per operation;
\* an edge state only steps to the configuration state of its result
IsCfgState == from = cur /\ op = NoOp /\ ok
Next == IF IsCfgState
        THEN \E o \in Ops :
               LET r == CcApply(cur, o)
               IN  cur' = r.st /\ from' = cur /\ op' = o /\ ok' = r.ok
        ELSE cur' = cur /\ from' = cur /\ op' = NoOp /\ ok' = TRUE

\* --- the property (C13) on the abstract algebra -------------------------------
Inv_ConfInv == ConfInv(cur)
Inv_RejectedUntouched == ~ok => cur = from
Inv_AtLeastOneVoter == (ok /\ op # NoOp) => cur.voters # {}
Inv_SimpleAtMostOne ==
  (ok /\ op # NoOp /\ ~CcIsLeaveJoint(op) /\ ~CcEntersJoint(op)) => SymDiff(from.voters, cur.voters) <= 1
Equivalent(a, b) ==
  /\ a.voters = b.voters /\ a.outgoing = b.outgoing /\ a.learners = b.learners
  /\ a.learnersNext = b.learnersNext /\ a.autoLeave = b.autoLeave
  /\ DOMAIN a.prs = DOMAIN b.prs /\ \A id \in DOMAIN a.prs : a.prs[id] = b.prs[id]
Inv_RestoreRoundTrip ==
  cur.voters # {} => LET r == CcRestore(ConfStateOf(cur)) IN r.ok /\ Equivalent(r.st, cur)
=============================================================================
