INIT Init
NEXT Next
CONSTANTS
  MaxIdx = 4
  MaxTerm = 3
  MaxLen = 4
  MaxWrites = 2
INVARIANT Inv_Terms
INVARIANT Inv_Order
CHECK_DEADLOCK FALSE
