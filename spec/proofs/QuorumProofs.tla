--------------------------- MODULE QuorumProofs ----------------------------
(* TLAPS-checked facts behind the quorum arithmetic of Quorum.tla (C12): the   *)
(* property every election and commit rule in RaftCore leans on, for voter     *)
(* sets of ANY finite size (the model checker only enumerates small ones).     *)
EXTENDS Quorum, FiniteSetTheorems, TLAPS

THEOREM MajoritiesIntersect ==
  ASSUME NEW c, IsFiniteSet(c), NEW q1 \in SUBSET c, NEW q2 \in SUBSET c,
         IsStrictMajority(q1, c), IsStrictMajority(q2, c)
  PROVE  q1 \cap q2 # {}
<1>1. IsFiniteSet(q1) /\ IsFiniteSet(q2)
  BY FS_Subset
<1>2. Cardinality(q1 \cup q2) = Cardinality(q1) + Cardinality(q2) - Cardinality(q1 \cap q2)
  BY <1>1, FS_Union
<1>3. Cardinality(q1 \cup q2) <= Cardinality(c)
  BY FS_Subset, q1 \cup q2 \subseteq c
<1>4. Cardinality(q1) \in Nat /\ Cardinality(q2) \in Nat /\ Cardinality(c) \in Nat
      /\ Cardinality(q1 \cap q2) \in Nat /\ Cardinality(q1 \cup q2) \in Nat
  BY <1>1, FS_CardinalityType, FS_Union, FS_Intersection
<1>0. 2 * Cardinality(q1) > Cardinality(c) /\ 2 * Cardinality(q2) > Cardinality(c)
  BY DEF IsStrictMajority
<1>a. \A a, b, i, u, n \in Nat : (2 * a > n /\ 2 * b > n /\ u = a + b - i /\ u <= n) => i > 0
  OBVIOUS
<1>5. Cardinality(q1 \cap q2) > 0
  BY <1>a, <1>0, <1>2, <1>3, <1>4
<1>6. IsFiniteSet(q1 \cap q2)
  BY <1>1, FS_Intersection
<1> QED
  BY <1>5, <1>6, FS_EmptySet

\* A quorum of a joint configuration (a majority of BOTH halves, as far as it lies in each) meets every
\* majority of either half: decisions taken before, during and after a joint change cannot diverge.
JointQuorum(q, c0, c1) == IsStrictMajority(q \cap c0, c0) /\ IsStrictMajority(q \cap c1, c1)

THEOREM JointMeetsEitherHalf ==
  ASSUME NEW c0, IsFiniteSet(c0), NEW c1, IsFiniteSet(c1), NEW q, JointQuorum(q, c0, c1),
         NEW p \in SUBSET c0, IsStrictMajority(p, c0)
  PROVE  q \cap p # {}
<1>1. (q \cap c0) \in SUBSET c0 /\ IsStrictMajority(q \cap c0, c0)
  BY DEF JointQuorum
<1>2. (q \cap c0) \cap p # {}
  BY <1>1, MajoritiesIntersect
<1> QED
  BY <1>2
=============================================================================
