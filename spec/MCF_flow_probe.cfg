SPECIFICATION Spec
CONSTANTS
  Node = {1, 2}
  Weaken = {}
  MCCl <- ClFlow
  PszSet <- PszF
  CCSet <- NoCCsF
  Actors <- ActorsFlow
  Bound <- BoundFlow
INVARIANT Probe_flow
CONSTRAINT StateBound
VIEW View
CHECK_DEADLOCK FALSE
