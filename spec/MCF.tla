-------------------------------- MODULE MCF ---------------------------------
(* Property-family instances of the cluster specification: each cfg enables   *)
(* the actions one family of properties is about (reads, membership changes,  *)
(* snapshots, timers, leadership transfer, flow control) on two or three      *)
(* nodes, with bounds small enough that TLC explores the fragment completely   *)
(* or to a useful depth inside its time box.                                  *)
EXTENDS Raft

NC(i, initial, async, preVote, checkQuorum) ==
  [id |-> i, preVote |-> preVote, checkQuorum |-> checkQuorum, async |-> async, stepDownOnRemoval |-> FALSE,
   disableCCValidation |-> FALSE, disableForwarding |-> FALSE, electionTick |-> 2, heartbeatTick |-> 1,
   maxSizePerMsg |-> NoLimit, maxCommittedSize |-> 0, maxUncommittedSize |-> 0, maxInflightMsgs |-> 2,
   maxInflightBytes |-> 0, initial |-> initial, exists |-> initial]

ConfOf(vs) == [voters |-> vs, outgoing |-> <<>>, learners |-> <<>>, learnersNext |-> <<>>, autoLeave |-> FALSE]
ClOf(vs, async, pv, cq) == [nodes |-> [i \in Node |-> NC(i, \E k \in DOMAIN vs : vs[k] = i, async, pv, cq)], conf |-> ConfOf(vs)]

NoActors == [Tick |-> {}, Campaign |-> {}, Propose |-> {}, ProposeConfChange |-> {}, ReadIndex |-> {},
         Crash |-> {}, TransferLeader |-> {}, ForgetLeader |-> {}, ReportUnreachable |-> {}, ReportSnapshot |-> {}]
NoBudget == [Tick |-> 0, Campaign |-> 0, Propose |-> 0, ProposeConfChange |-> 0, ReadIndex |-> 0, Crash |-> 0, Dup |-> 0, Drop |-> 0,
         Snapshot |-> 0, Compact |-> 0, TransferLeader |-> 0, ForgetLeader |-> 0, ReportUnreachable |-> 0, ReportSnapshot |-> 0, Defer |-> 0, Atomic |-> 0,
         Term |-> 1, Index |-> 3, Net |-> 4]
PszF == {3}
NoCCsF == {}

\* --- reads (C11): two leaderships, a read at either node, lost messages ---------------------------
ClReads == ClOf(<<1, 2>>, FALSE, FALSE, FALSE)
ActorsReads == [NoActors EXCEPT !.Campaign = {1, 2}, !.Propose = {1, 2}, !.ReadIndex = {1, 2}]
BoundReads == [NoBudget EXCEPT !.Atomic = 1, !.Campaign = 2, !.Propose = 1, !.ReadIndex = 1, !.Drop = 1, !.Term = 2, !.Index = 4]
\* one leadership, complete exploration
ActorsReads1 == [NoActors EXCEPT !.Campaign = {1}, !.Propose = {1}, !.ReadIndex = {1, 2}]
BoundReads1 == [NoBudget EXCEPT !.Atomic = 1, !.Campaign = 1, !.Propose = 1, !.ReadIndex = 1, !.Drop = 1, !.Term = 1, !.Index = 3]

\* --- membership (C10): three nodes, node 3 is removed / demoted / re-added through joint configs ---
ClConf == ClOf(<<1, 2, 3>>, FALSE, FALSE, FALSE)
CCsConf == {[trans |-> "auto", changes |-> <<[t |-> "r", id |-> 3]>>],
            [trans |-> "implicit", changes |-> <<[t |-> "l", id |-> 3]>>],
            [trans |-> "explicit", changes |-> <<[t |-> "r", id |-> 2], [t |-> "r", id |-> 3]>>],
            [trans |-> "auto", changes |-> <<>>]}
ActorsConf == [NoActors EXCEPT !.Campaign = {1}, !.ProposeConfChange = {1}, !.Propose = {1}]
BoundConf == [NoBudget EXCEPT !.Atomic = 1, !.Campaign = 1, !.ProposeConfChange = 2, !.Propose = 0, !.Index = 5, !.Net = 4]

\* --- snapshots (C09): the follower misses appends, the leader compacts, a snapshot travels -----------
\* (three voters: with two, nothing commits without the follower, so it never needs a snapshot)
ClSnap == ClOf(<<1, 2, 3>>, FALSE, FALSE, FALSE)
ActorsSnap == [NoActors EXCEPT !.Campaign = {1}, !.Propose = {1}, !.ReportSnapshot = {1}, !.Tick = {1}]
BoundSnap == [NoBudget EXCEPT !.Atomic = 1, !.Campaign = 1, !.Propose = 0, !.Drop = 2, !.Dup = 0, !.Snapshot = 1, !.Compact = 1, !.ReportSnapshot = 1,
                          !.Tick = 1, !.Index = 2, !.Net = 5]

\* --- timers (C17): pre-vote + check-quorum, elections come from ticks only -------------------------
ClTick == ClOf(<<1, 2>>, FALSE, TRUE, TRUE)
ActorsTick == [NoActors EXCEPT !.Tick = {1, 2}, !.Crash = {1}]
BoundTick == [NoBudget EXCEPT !.Atomic = 1, !.Tick = 7, !.Drop = 1, !.Term = 2, !.Index = 3]

\* --- leadership transfer ------------------------------------------------------------------------
ClXfer == ClOf(<<1, 2>>, FALSE, FALSE, FALSE)
ActorsXfer == [NoActors EXCEPT !.Campaign = {1}, !.Propose = {1, 2}, !.TransferLeader = {1, 2}]
BoundXfer == [NoBudget EXCEPT !.Atomic = 1, !.Campaign = 1, !.Propose = 1, !.TransferLeader = 1, !.Drop = 1, !.Term = 2, !.Index = 4]

\* --- flow control (C16): one message in flight, tiny messages --------------------------------------
ClFlow == [nodes |-> [i \in Node |-> [NC(i, TRUE, FALSE, FALSE, FALSE) EXCEPT !.maxInflightMsgs = 1, !.maxSizePerMsg = 8,
                                                                                 !.maxUncommittedSize = 5]],
           conf |-> ConfOf(<<1, 2>>)]
ActorsFlow == [NoActors EXCEPT !.Campaign = {1}, !.Propose = {1}]
BoundFlow == [NoBudget EXCEPT !.Atomic = 1, !.Campaign = 1, !.Propose = 3, !.Drop = 1, !.Index = 5, !.Net = 4]

\* --- reachability probes: each names the situation its family is about; a cfg MCF_<family>_probe.cfg
\* checks the NEGATION as an invariant and must report it violated (TLC's shortest path to it), which
\* shows the family instance is not vacuous
Probe_reads == ~(act.name = "Ready" /\ act.rd.has /\ Len(act.rd.readStates) > 0 /\ act.node = 2)
\* a joint configuration was entered and left again (automatically)
Probe_conf == ~(\E i \in Node : Up(i) /\ node[i].cfg.outgoing = <<>> /\ node[i].cfg.learners = <<3>> /\ node[i].role = "L")
Probe_snap == ~(\E i \in Node : Up(i) /\ node[i].usnap.has /\ node[i].usnap.index > 1)
Probe_tick == ~(\E i \in Node : Up(i) /\ node[i].role = "L" /\ node[i].term = 2)
Probe_xfer == ~(Up(2) /\ node[2].role = "L")
Probe_flow == ~(\E i \in Node : Up(i) /\ node[i].role = "L" /\ act.name = "Propose" /\ act.ret = "dropped")
=============================================================================
