SPECIFICATION Spec
CONSTANTS
  Node = {1, 2, 3}
  Weaken = {}
  MCCl <- ClConf
  PszSet <- PszF
  CCSet <- CCsConf
  Actors <- ActorsConf
  Bound <- BoundConf
INVARIANTS
  C01_CommittedStable
  C01_AppliedAgree
  C01_ApplyAgree
  C02_OneLeaderPerTerm
  C02_OneVotePerTerm
  C02_VoteOnlyUpToDate
  C02_LeaderHasQuorum
  C02_RestartKeepsVote
  C03_WellFormed
  C03_LogMatching
  C04_LeaderComplete
  C04_NoOverwrite
  C05_VoteDurable
  C05_AckDurable
  C05_SelfAckDurable
  C05_RestartFromDisk
  C06_CommitWithinLog
  C06_LeaderCommitBacked
  C06_FollowerCommit
  C07_DurableMono
  C07_ExposedMono
  C07_VolatileMono
  C07_RestartFromDisk
  C07_NoActBelowStart
  C08_Contiguous
  C08_WithinCommit
  C08_StableOnlyAsync
  C08_NotDuringSnap
  C08_SnapshotForward
  C09_NoRollback
  C09_ExactBase
  C09_IgnoreStale
  C09_NoFork
  C09_SnapPrefixCommitted
  C10_ConfigIsFold
  C10_OnePending
  C10_NoCampaignUnapplied
  C10_AutoLeave
  C10_JointNeedsBoth
  C11_ReadIndexFresh
  C11_ServedByRealLeader
  C14_NoPanic
  C15_Converged
  C16_MsgSizeBound
  C16_InflightBound
  C16_NoAppendDuringSnapshot
  C16_UncommittedBound
  C16_DropIffOver
  C17_PreVoteBeforeTerm
  C17_PreVoteNoStateChange
  C17_LeaseHolds
  C17_LeaseFromContact
  C17_NoCampaignInLease
  C17_CheckQuorumStepDown
  C19_SameOutputs
  C20_NothingInvented
  C20_AtMostOncePerDelivery
  C20_ProposedAtLeaderOnce
  C20_QueuedIntact
  C20_ForwardIntact
  C20_DroppedMeansDropped
CONSTRAINT StateBound
VIEW View
CHECK_DEADLOCK FALSE
