SPECIFICATION Spec
CONSTANTS
  Node = {1, 2}
  Weaken = {}
  MCCl <- ClTick
  PszSet <- PszF
  CCSet <- NoCCsF
  Actors <- ActorsTick
  Bound <- BoundTick
INVARIANT Probe_tick
CONSTRAINT StateBound
VIEW View
CHECK_DEADLOCK FALSE
