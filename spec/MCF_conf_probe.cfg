SPECIFICATION Spec
CONSTANTS
  Node = {1, 2, 3}
  Weaken = {}
  MCCl <- ClConf
  PszSet <- PszF
  CCSet <- CCsConf
  Actors <- ActorsConf
  Bound <- BoundConf
INVARIANT Probe_conf
CONSTRAINT StateBound
VIEW View
CHECK_DEADLOCK FALSE
