SPECIFICATION ObsSpec
CONSTANTS
  Node = {1, 2, 3, 4, 5}
  Weaken = {}
INVARIANT Done
CHECK_DEADLOCK FALSE
VIEW ObsView
