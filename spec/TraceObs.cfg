SPECIFICATION ObsSpec
CONSTANTS
  Node = {1, 2, 3, 4, 5, 6, 7, 8, 9}
  Weaken = {}
  MCCl <- EmptyCl
  PszSet <- EmptySet
  CCSet <- EmptySet
  Actors <- DummyActors
  Bound <- DummyBound
INVARIANT Done
CHECK_DEADLOCK FALSE
VIEW ObsView
