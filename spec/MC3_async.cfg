SPECIFICATION Spec
CONSTANTS
  Node = {1, 2, 3}
  Weaken = {}
  MCCl <- Cl3Async
  PszSet <- Psz3
  CCSet <- NoCCs3
  Actors <- Actors3
  Bound <- Bound3
INVARIANT AllInvariants
CONSTRAINT StateBound
VIEW View
CHECK_DEADLOCK FALSE
